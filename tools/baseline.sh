#!/bin/bash
# Runs the repository's pinned test suite (guard off) and compares with /root/.vp/BASELINE.json.
# usage: baseline.sh [repo-dir]
repo="${1:-/repo}"
# the cache tests bind a fixed port: never run two suites at once
exec 9>/var/tmp/baseline.lock; flock 9
out=$(mktemp /var/tmp/baseline.XXXXXX.json)
before=$(git -C "$repo" status --porcelain --untracked-files=no)
for m in . ./test; do
  (cd "$repo/$m" && go test -mod=mod -json -vet=off -count=1 -timeout 25m ./... 2>/dev/null)
done > "$out"
python3 - "$out" <<'EOF'
import json, sys
base = json.load(open('/root/.vp/BASELINE.json'))
want = set(base['stable_pass'])
passed = set()
for line in open(sys.argv[1]):
    try:
        r = json.loads(line)
    except Exception:
        continue
    if r.get('Action') == 'pass' and r.get('Test'):
        passed.add(r['Package'] + '::' + r['Test'])
missing = sorted(want - passed)
print(f"baseline: {len(want & passed)}/{len(want)} stable tests pass")
for m in missing:
    print("MISSING", m)
sys.exit(1 if missing else 0)
EOF
rc=$?
# the suite itself rewrites a few tracked files (src/plzinit/BUILD, test/go.mod): restore what it dirtied
if [ -z "$before" ]; then git -C "$repo" checkout -- . 2>/dev/null; git -C "$repo" clean -fdq 2>/dev/null; fi
rm -f "$out"
exit $rc
