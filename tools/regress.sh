#!/bin/bash
# usage: regress.sh [tier]  — runs every claimed property's check against /repo, prints only the summary lines
cd /verif
tier="${1:-quick}"
for p in $(ls claims | sed 's/\.json$//'); do
  ./bin/govc check -prop $p -tier $tier 2>&1 | grep -v "^loaded\|^KNOWN-FINDING" | grep "VIOLATION\|ENGINE\|UNDECIDED\|$p $tier" | sed "s/^/$p: /" | cut -c1-220
done
