#!/bin/bash
# usage: seedcheck.sh <name> [...]   — fast re-check of already confirmed seeds (/verif/seeded/<name>/patch.diff):
# apply the patch in a scratch worktree of /repo HEAD, run the property's quick check with a private copy of the
# committed claims and binary, and update the detection fields of meta.json (the confirmation fields are kept).
export PATH=/opt/veriftools/go1.26.8/bin:$PATH GOTOOLCHAIN=local GOFLAGS=-mod=mod GOPROXY=off GOSUMDB=off
for name in "$@"; do
  out=/verif/seeded/$name; prop=${name%-*}
  [ -f "$out/patch.diff" ] && [ -f "$out/meta.json" ] || { echo "$name: no confirmed seed"; continue; }
  W=/var/tmp/seedwt-$name; SV=/var/tmp/seedverif-$name
  rm -rf "$W" "$SV"; git -C /repo worktree prune
  git -C /repo worktree add --detach "$W" HEAD -q || continue
  mkdir -p "$SV"; cp -r /verif/claims "$SV/"; cp /verif/known_findings.json "$SV/"; cp /verif/bin/govc "$SV/govc"
  if git -C "$W" apply "$out/patch.diff" 2>/dev/null; then
    "$SV/govc" check -prop "$prop" -tier quick -repo "$W" -verif "$SV" > "$out/check.out" 2>&1; rc=$?
  else
    echo "PATCH DOES NOT APPLY to the current HEAD (the code it changes was repaired or rewritten since)" > "$out/check.out"; rc=-1
  fi
  python3 - "$out" "$prop" "$rc" <<'PY'
import json, sys, os, re
out, prop, rc = sys.argv[1:]
m = json.load(open(os.path.join(out, 'meta.json')))
obl = []
for l in open(os.path.join(out, 'check.out')):
    r = re.search(r'replay=\S*/' + prop + r'-(\S+)\.json', l)
    if r: obl.append(r.group(1))
m['check_exit'] = int(rc); m['failed_obligations'] = obl; m['violations_reported'] = len(obl)
m['detected'] = rc == '1'
if rc == '-1': m['detected'] = None; m['note'] = 'patch no longer applies to HEAD'
m.setdefault('ran', []).append('tools/seedcheck.sh ' + os.path.basename(out))
m['ran'] = sorted(set(m['ran']))
json.dump(m, open(os.path.join(out, 'meta.json'), 'w'), indent=1)
print(os.path.basename(out), {True: 'detected', False: 'MISSED', None: 'N/A (patch does not apply)'}[m['detected']], obl[:2])
PY
  git -C /repo worktree remove --force "$W" 2>/dev/null; rm -rf "$W" "$SV"
done
