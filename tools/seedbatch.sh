#!/bin/bash
# usage: seedbatch.sh C27 C06 ...   — evaluates /tmp/seed-<prop>/<n> sequentially
for p in "$@"; do for n in 1 2 3; do [ -d /tmp/seed-$p/$n ] && /verif/tools/seedeval.sh $p /tmp/seed-$p/$n $p-$n; done; done
