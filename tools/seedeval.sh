#!/bin/bash
# usage: seedeval.sh <prop> <seed-dir> <name> [skip-baseline]
# Confirms a seeded change in a scratch worktree (demo passes without, fails with; builds; pinned suite passes),
# then runs the property's quick check against the changed tree. Results go to /verif/seeded/<name>/.
prop="$1"; seed="$2"; name="$3"; skipbl="${4:-}"
export PATH=/opt/veriftools/go1.26.8/bin:$PATH GOTOOLCHAIN=local GOFLAGS=-mod=mod GOPROXY=off GOSUMDB=off
W=/var/tmp/seedwt-$name
SV=/var/tmp/seedverif-$name
head=$(git -C /repo rev-parse HEAD)
rm -rf "$W" "$SV"; git -C /repo worktree prune
git -C /repo worktree add --detach "$W" "$head" -q || exit 2
mkdir -p "$SV"; cp -r /verif/claims "$SV/"; cp /verif/known_findings.json "$SV/"; cp /verif/bin/govc "$SV/govc"
out=/verif/seeded/$name; mkdir -p "$out"
cp "$seed"/patch.diff "$out/"; cp "$seed"/*.go "$seed"/run.sh "$seed"/notes.md "$out/" 2>/dev/null
log="$out/eval.log"; : > "$log"
echo "== control: check $prop on the unchanged tree" >> "$log"
"$SV/govc" check -prop "$prop" -tier quick -repo "$W" -verif "$SV" > "$out/control.out" 2>&1; rc_control=$?
grep -v "^loaded" "$out/control.out" | tail -3 >> "$log"
if [ "$rc_control" != 0 ]; then echo "$name CONTROL-FAILED (check does not pass on the unchanged tree: fix that first)"; git -C /repo worktree remove --force "$W" 2>/dev/null; rm -rf "$W" "$SV"; exit 3; fi
echo "== demo on unchanged tree" >> "$log"
bash "$seed/run.sh" "$W" >> "$log" 2>&1; rc_clean=$?
echo "rc=$rc_clean" >> "$log"
if ! git -C "$W" apply "$seed/patch.diff" 2>>"$log"; then echo "PATCH DOES NOT APPLY" >> "$log"; apply=fail; else apply=ok; fi
rc_build=1; rc_seeded=0; bl="skipped"
if [ "$apply" = ok ]; then
  (cd "$W" && go build ./... ) >> "$log" 2>&1; rc_build=$?
  echo "== demo with change" >> "$log"
  bash "$seed/run.sh" "$W" > "$out/demo_with_change.out" 2>&1; rc_seeded=$?
  cat "$out/demo_with_change.out" >> "$log"
  # some run.sh scripts do not propagate the test's exit status: judge by the output as well
  if grep -qE '^(--- FAIL|FAIL|panic:)' "$out/demo_with_change.out"; then rc_seeded=1; fi
  echo "rc=$rc_seeded" >> "$log"
  if [ -z "$skipbl" ]; then
    bl=$(/verif/tools/baseline.sh "$W" 2>&1 | tail -3 | tr '\n' ' ')
    case "$bl" in *"347/347"*) ;; *) bl2=$(/verif/tools/baseline.sh "$W" 2>&1 | tail -3 | tr '\n' ' '); bl="$bl | retry: $bl2";; esac
  fi
  echo "== baseline: $bl" >> "$log"
  echo "== check $prop on changed tree" >> "$log"
  "$SV/govc" check -prop "$prop" -tier quick -repo "$W" -verif "$SV" > "$out/check.out" 2>&1; rc_check=$?
  cat "$out/check.out" | grep -v "^loaded" >> "$log"
else
  rc_check=-1
fi
viol=$(grep -c '^VIOLATION' "$out/check.out" 2>/dev/null)
python3 - "$out" "$prop" "$name" "$rc_clean" "$rc_seeded" "$rc_build" "$apply" "$bl" "$rc_check" "$viol" <<'EOF'
import json, sys, os, re
out, prop, name, rc_clean, rc_seeded, rc_build, apply, bl, rc_check, viol = sys.argv[1:]
notes = open(os.path.join(out, 'notes.md')).read() if os.path.exists(os.path.join(out, 'notes.md')) else ''
if bl == 'skipped' and os.path.exists(os.path.join(out, 'meta.json')):
    try:
        prev = json.load(open(os.path.join(out, 'meta.json')))
        if '347/347' in prev['confirmed'].get('pinned_suite', ''):
            bl = prev['confirmed']['pinned_suite'] + ' (confirmed in an earlier evaluation of this seed)'
    except Exception:
        pass
obl = []
co = os.path.join(out, 'check.out')
if os.path.exists(co):
    for l in open(co):
        m = re.search(r'replay=\S*/' + prop + r'-(\S+)\.json', l)
        if m: obl.append(m.group(1))
meta = {
  "property": prop, "seed": name,
  "confirmed": {"patch_applies": apply == 'ok', "builds": rc_build == '0', "demo_passes_unchanged": rc_clean == '0',
                "demo_fails_with_change": rc_seeded != '0', "pinned_suite": bl},
  "needs_to_manifest": "see notes.md",
  "ran": ["tools/seedeval.sh %s <seed> %s" % (prop, name)],
  "check_exit": int(rc_check), "violations_reported": int(viol or 0), "failed_obligations": obl,
  "detected": rc_check == '1',
}
json.dump(meta, open(os.path.join(out, 'meta.json'), 'w'), indent=1)
print(name, "detected" if meta["detected"] else "MISSED", "confirmed=%s" % all([apply=='ok', rc_build=='0', rc_clean=='0', rc_seeded!='0']), bl[:40], obl[:3])
EOF
git -C /repo worktree remove --force "$W" 2>/dev/null; rm -rf "$W" "$SV"
