#!/usr/bin/env python3
"""Regenerates DESIGN.md section 10.4 (findings) from known_findings.json."""
import json, re, os
ROOT = os.path.dirname(os.path.dirname(os.path.abspath(__file__)))
p = os.path.join(ROOT, 'DESIGN.md')
s = open(p).read()
k = json.load(open(os.path.join(ROOT, 'known_findings.json')))
start = s.index("### 10.4 Findings on the unchanged tree")
end = s.index("### 10.5 False alarms in the machinery")
lines = ["### 10.4 Findings on the unchanged tree", "",
"Every repaired entry, and every recorded one that has a region, was first reported by an obligation of a contract (named in",
"known_findings.json) and then confirmed against the real code; the `demonstrated` ones were found while writing the contract and",
"are confirmed the same way, each with a demonstration kept under /verif/findings/<property>/ (in-package tests run through",
"`go test -overlay`).", "",
"**Repaired** — one unguarded `fix:` commit each in /repo, pinned suite 347/347 after each, recorded under `fixed` (%d so far):" % len(k['fixed']), ""]
for f in k['fixed']:
    m = re.match(r'fixed: property=(\S+) (\S+) (.*?); obligations? (.*)$', f)
    if m:
        lines.append("* %s `%s` — %s. Obligation: `%s`." % (m.group(1), m.group(2), m.group(3), m.group(4)))
    else:
        lines.append("* " + f)
lines += ["", "**Recorded as known findings** (`KNOWN-FINDING:` line on every run, exit 0; region + canary where an obligation can express it,",
"`kind: demonstrated` with a re-runnable demonstration where none can):", ""]
for f in k['findings']:
    kind = f.get('kind') or 'region %s of %s#%s' % (f.get('region'), f.get('function'), f.get('clause'))
    lines.append("* %s (%s) — %s" % (f['property'], kind, f['what']))
lines += ["", "Why recorded rather than repaired: C08/C09 repairs change every stored hash (cache invalidation on upgrade); C21 (hidden directories)",
"and C37 change which files a glob returns / how commands are quoted for existing repositories; C23 and the C29 ReadDir finding need a",
"restructuring of the traversal / a stateful directory handle.", "",
"Seen while reading or reported by the seeding agents, not tied to an obligation and therefore neither claimed nor listed: `//:_ORIGINAL` round",
"trip, `CollapseHash` is symmetric in the configuration and source hashes, `pyConfig.Freeze` is shallow, revdeps pushes zero-cost edges to the",
"back of the queue (the same class as the C23 finding), `allBuildInputs` appends into the spare capacity of `target.Sources`,",
"`readRuleHashFromXattrs` slices a record shorter than 100 bytes, non-ASCII string slicing uses byte offsets, `buildRevdeps` stores a nil target",
"for a dependency that is not in the graph.", ""]
s = s[:start] + "\n".join(lines) + "\n" + s[end:]
open(p, 'w').write(s)
print("findings section written: %d fixed, %d recorded" % (len(k['fixed']), len(k['findings'])))
