#!/usr/bin/env python3
"""Regenerates the seeded-changes table of DESIGN.md §10.6 (between the markers) from seeded/*/meta.json."""
import json, os, re, glob, collections
ROOT = os.path.dirname(os.path.dirname(os.path.abspath(__file__)))
by = collections.defaultdict(list)
for m in sorted(glob.glob(os.path.join(ROOT, "seeded", "*", "meta.json"))):
    try:
        d = json.load(open(m))
    except Exception:
        continue
    name = os.path.basename(os.path.dirname(m))
    by[name.rsplit("-", 1)[0]].append((name, d))
def short(o):
    # pkg.Func-kind-clause@Lnn -> Func#clause
    o = re.sub(r"@L[\d.]+$", "", o)
    m = re.match(r"[a-z]+\.(.+?)-(post|callsite|returnsite|sendsite|inv-preserve|inv-init|frame|nopanic|pre|lemma)-(.*)$", o)
    if m:
        return "`%s#%s`" % (m.group(1), m.group(3))
    return "`%s`" % o
out = ["| property | seeds | detected | which obligations catch them / what is missed |", "|---|---|---|---|"]
tot = det = 0
for pid in sorted(by):
    rows = by[pid]
    n = len(rows)
    d = sum(1 for _, r in rows if r.get("detected"))
    na = [nm for nm, r in rows if r.get("detected") is None]
    tot += n; det += d
    cells = []
    for nm, r in rows:
        if r.get("detected"):
            obl = r.get("failed_obligations") or []
            seen = []
            for o in obl:
                s = short(o)
                if s not in seen:
                    seen.append(s)
            cells.append("%s: %s" % (nm, ", ".join(seen[:2]) + (" (+%d)" % (len(seen) - 2) if len(seen) > 2 else "")))
        elif r.get("detected") is None:
            cells.append("%s: patch no longer applies (the code it changes was repaired since)" % nm)
        else:
            cells.append("%s: **missed**" % nm)
    out.append("| %s | %d | %d | %s |" % (pid, n, d, "; ".join(cells)))
out.append("")
out.append("Total: %d confirmed seeded changes, %d detected by the quick check of their property." % (tot, det))
text = "\n".join(out)
p = os.path.join(ROOT, "DESIGN.md")
s = open(p).read()
b, e = "<!-- BEGIN seeds table -->", "<!-- END seeds table -->"
i, j = s.index(b), s.index(e)
s = s[:i + len(b)] + "\n" + text + "\n" + s[j:]
open(p, "w").write(s)
print("seeds table: %d seeds, %d detected" % (tot, det))
