#!/usr/bin/env python3
"""Generates /verif/MANIFEST.json from the table below (kept here so the manifest stays consistent)."""
import json, os, sys

ROOT = os.path.dirname(os.path.dirname(os.path.abspath(__file__)))

BASELINE_OFF = "/verif/tools/baseline.sh /repo"

COMMON_NOTE = ("Trusted: the govc VC generator (go/ast+go/types symbolic execution, state merging, loop cutting by invariants), "
               "z3 4.8.12 / z3 5.1.0 / cvc5 1.0.3, go/types; integers are mathematical; sequential execution (no goroutines); "
               "partial correctness; library functions used through the assumed models listed in the evidence file. ")

# id -> (claimed text, note, technique, design_ref)
CLAIMED = {
    "C20": ("Proof (deductive, unbounded) that BuildLabel.Includes equals the component-wise pattern relation selects(), that "
            "BuildLabel.Matches agrees with it for ... and :all patterns, and that the exclude-pattern filter of BuildState.ShouldInclude and "
            "isExperimental use it; that BuildLabel.String prints exactly ///subrepo (if any), //package and :name — or ... / /... for the "
            "all-subpackages wildcard — the form the parser reads back. validateSandbox accepts a sandbox opt-out through an experimental directory only for packages that ARE the directory or lie under "
            "it (exposed the raw-prefix defect repaired in /repo). Kernel-only: the label parser itself (so the round trip as a whole) is not "
            "under contract.",
            COMMON_NOTE + "Matches is specified for label.PackageName != \".\" (root alias).",
            "contract-based deductive verification (own WP/symbolic-execution VC generator + SMT)", "6/C20"),
    "C27": ("Proof that MergeCoverageLines returns the pointwise maximum with length extension (loop invariant, unbounded in both "
            "lengths), does not write to its arguments (frame obligation through slice-origin tracking), and lemmas that the merge operator is "
            "commutative, associative, idempotent and selects the best state.",
            COMMON_NOTE + "TestCoverage.Aggregate is under contract as well (files kept, lines merged).",
            "contract-based deductive verification (loop invariants + SMT)", "6/C27"),
    "C33": ("Proof that BuildLabel.CanSee returns true exactly under the documented rule (same package, visibility pattern via Includes, "
            "parent package, experimental exemption/barrier) and that isExperimental is the pattern relation over experimentalLabels.",
            COMMON_NOTE + "CheckDependencyVisibility is under contract with graph lookups assumed pure.",
            "contract-based deductive verification (own VC generator + SMT)", "6/C33"),
    "C36": ("Proof that match, HasLabel, HasAllLabels, BuildTarget.ShouldInclude and BuildState.ShouldInclude compute exactly the documented "
            "include/exclude rule (every label of some include group, no exclude group, exclude patterns via Includes, trailing * by prefix), for all "
            "label lists and all group lists.",
            COMMON_NOTE + "strings.Split is an uninterpreted pure function (the comma grouping itself is assumed).",
            "contract-based deductive verification (search-loop invariants + SMT)", "6/C36"),
}

CLAIMED["C14"] = (
    "Proof that shouldClean recognises exactly whole cache entries (key-shaped name + suffix, directory iff uncompressed), that markDir "
    "marks path and path+'=' and never unmarks anything, that isMarked reports membership, and — through call-site obligations inside the real "
    "clean() with the directory walk modelled by an iteration contract — that every os.Rename/RemoveAll issued by the eviction loop targets a "
    "whole entry that is unmarked at that moment (rename to <entry>=, remove only that); that a retrieve reporting a hit has marked the entry "
    "(so it is protected for the rest of the process), and that once eviction starts clean returns either below the low-water mark or after "
    "visiting every entry. Kernel-only: the size accounting itself (unsigned arithmetic, sizes of entries) is taken as computed.",
    COMMON_NOTE + "fs.Walk is an assumed iteration contract (arbitrary finite entry sequence under the root); os.Rename/RemoveAll/Stat are opaque; "
    "the mutex makes markDir/isMarked atomic (assumed).",
    "contract-based deductive verification (call-site obligations + walk iteration contract + SMT)", "6/C14")

CLAIMED["C35"] = (
    "Proof that checkRuleHashesOfType returns true exactly when some declared value of the right length equals the hex digest under one of the "
    "configured algorithms (two nested search loops), that checkRuleHashes returns nil exactly when no hashes are declared or a declared value "
    "(algorithm prefix aside) equals the computed hash or passes checkRuleHashesOfType, and that UnprefixedHashes strips prefixes pointwise "
    "without writing to the target (frame obligation; this exposed the alias defect repaired by commit d3f0bea). calculateAndCheckRuleHash "
    "writes the rule-hash record only after checkRuleHashes ran and passed (or verification is off / new hashes were requested for an original "
    "target) and fails the build on a mismatch; buildTarget marks a target built and stores it in the caches only after that check returned nil. "
    "Kernel-only: retrieveArtifacts (outputs removed on a failed cache hit) is not under contract.",
    COMMON_NOTE + "outputHash is abstracted as an uninterpreted function of (target, outputs, hasher, combine): the file system is assumed not to "
    "change during one check; hex encoding and PathHasher.Size are uninterpreted pure functions.",
    "contract-based deductive verification (search-loop invariants, frame obligations + SMT)", "6/C35")

CLAIMED["C06"] = (
    "Proof of soundness of the cycle detector for all graphs and all visiting orders: the recursive closure visit is verified against a "
    "recursive contract (nil result keeps the partial set; non-nil result is a dependency chain that is closed, or open with its tail on the "
    "caller's stack), Check is verified against 'every reported cycle is a genuine closed dependency chain', hence an acyclic graph is never "
    "reported. Completeness (a cycle exists implies one is reported) is NOT proved here.",
    COMMON_NOTE + "Dependencies() and AllTargets() are assumed pure functions of the target/graph returning non-nil targets; c.stopped only "
    "makes Check return nil; termination is not proved.",
    "contract-based deductive verification (recursive closure contract, set-valued map invariants + SMT)", "6/C06")

CLAIMED["C15"] = (
    "Proof, per shard method (Set, LazySet, Get) taken as sequential code between Lock and Unlock, of an atomic specification over the abstract "
    "view: add-if-absent / overwrite / lookup results, every other key untouched, Set/LazySet close exactly the wait channel registered for "
    "that key and no other (so no waiter of another key is woken and the key's own waiters are woken), Get never hands out a closed channel "
    "and reports first exactly when it created the placeholder, and the lock invariant (placeholder channels are open, allocated and "
    "pairwise distinct) is preserved; plus a return-site obligation that ErrMap.GetOrSet publishes the first caller's result on every path. "
    "Linearizability itself follows from the single-lock critical-section meta-theorem, which is trusted, not proved.",
    COMMON_NOTE + "K and V are uninterpreted sorts; mutual exclusion of sync.RWMutex and the critical-section meta-theorem are trusted; "
    "Get's read-locked fast path and write-locked slow path are verified as one sequential body; callbacks (f) are assumed not to touch the shard.",
    "contract-based deductive verification (lock-invariant reasoning, ghost closed-channel set + SMT)", "6/C15")

CLAIMED["C22"] = (
    "Proof about the callback FindAllBuildFiles hands to the directory walker (verified as a function literal under contract, for all entry "
    "names, configurations and blacklists): it returns nil or SkipDir only; plz-out and hidden directories are always skipped; an entry is "
    "skipped ONLY for a documented reason (output/hidden, off the requested prefix, experimental directory, or a blacklisted directory matched "
    "as a whole path component — this obligation exposed the raw-prefix defect repaired by commit 3b218fb); every blacklisted entry is skipped; a "
    "name is sent on the channel only if it is a non-directory BUILD file, and every such entry that is not skipped is sent. Kernel-only: the "
    "walker itself and the goroutine/channel plumbing are outside the proof.",
    COMMON_NOTE + "fs.Walk calls the callback on every entry under the root unless pruned (assumed); filepath.Base, Configuration.IsABuildFile and "
    "cli.ContainsString are uninterpreted pure functions.",
    "contract-based deductive verification (function-literal contract, send-site obligations + SMT)", "6/C22")

CLAIMED["C25"] = (
    "Proof that addTarget (a recursive function, verified against a recursive contract) only grows the kept set, adds its target and leaves "
    "every newly added target with all its dependencies (resolved, declared-and-present, subrepo) in the set; that targetsToRemove keeps the kept "
    "set dependency-closed at every loop head and at exit (so nothing a kept root transitively depends on is outside it), that the kept "
    "sources cover every local source of every kept target (for every map iteration order), and that no proposed source file is a source of any "
    "kept target. publicDependencies looks through a dependency only when it is a sub-target of the same rule and returns every other dependency. "
    "and the removal list only ever receives targets outside the kept set (call-site obligation on append; exposed the gc_sibling defect "
    "repaired in /repo). Kernel-only: WHICH roots are chosen is not covered by an obligation.",
    COMMON_NOTE + "Dependencies(), DeclaredDependencies(), graph.Target(), AllLocalSourcePaths() and PackageMap() are assumed "
    "pure functions (publicDependencies is used as a function of its arguments by callers and verified separately) of the graph; sort.Sort/sort.Strings are permutations (assumed); nil-dereference obligations are switched off for targetsToRemove.",
    "contract-based deductive verification (recursive contract, closure invariants over maps + SMT)", "6/C25")

CLAIMED["C26"] = (
    "Proof of the outcome summaries in core/test_results.go against specifications taken from the statement: Success/Skip/Failures/Errors "
    "report exactly whether some execution passed / was skipped / failed / errored; AllSucceeded is true exactly when every case succeeded "
    "in some execution or was skipped; Passes/Failures/Errors/Skips equal recursive count specifications over the cases; findMatchingTestCase "
    "returns the first case with the same name AND class name (or -1), which is what decides that flaky retries are merged and distinct cases "
    "are not. The readers: every append* helper adds exactly one execution of its class and keeps the earlier ones; appendResult puts the case's "
    "own outcome first (failure before error before skipped, success otherwise) and one execution per recorded flaky/rerun attempt, none of "
    "them a pass; toCoreTestSuite yields one case per <testcase>, in order, under the same name and class name; parseJUnitXMLTestResults hands "
    "every case to appendResult under the element's own name (a genuine defect found here and repaired: bare <testcase> elements lost their "
    "names and were merged into one flaky pass) and keeps every suite of a <testsuites> element; parseGoTestResults runs go-junit-report "
    "with default options and maps each test of the package to one case of the stated class; TestSuite.Add and Collapse never drop a case or "
    "an execution; logTargetResults reports the target as tested exactly when AllSucceeded. Kernel-only: encoding/xml and go-junit-report "
    "themselves (what they decode from the bytes), doFlakeRun's loop and the synthetic results of parseTestOutput are not under contract.",
    COMMON_NOTE + "that encoding/xml leaves no nil pointer in a decoded slice is assumed (precall=off on parseJUnitXMLTestResults); library structs of "
    "go-junit-report are opaque values with uninterpreted fields.",
    "contract-based deductive verification (search/count loop invariants, recursive count specs, call-site and return-site obligations + SMT)", "6/C26")

CLAIMED["C39"] = (
    "Proof of the ORDER in which configuration sources are applied: defaultConfigFiles ends with repo, per-architecture and local config in "
    "that order after the global files; in ReadConfigFiles / ReadConfigFilesOnly every profile file <f>.<p_j> is read immediately after <f> "
    "(j = 0) or <f>.<p_(j-1)> (ghost variable tracking the last file read + call-site obligations, for all file and profile lists); "
    "DefaultConfiguration does not pre-populate the accumulating list options and setDefault fills a list only if no source set it. "
    "Kernel-only: gcfg's merge semantics (later scalar wins, lists accumulate, blank clears) and ApplyOverrides (-o) are library / reflection "
    "code outside the proof.",
    COMMON_NOTE + "readConfigFile / readConfigFileOnly are opaque (they may change any heap); filepath.Join is an uninterpreted pure function.",
    "contract-based deductive verification (ghost tracking of call order, call-site obligations + SMT)", "6/C39")

CLAIMED["C37"] = (
    "Proof of the decision kernels of command location expansion: quote leaves strings without shell-special characters unchanged and quotes "
    "every string with a word-splitting character, whitespace included (the whitespace case was a recorded known finding until repaired in "
    "/repo); handleDir and fileDestination return the location at which "
    "the output exists (out dir, ./out for a test's own binary, package-relative otherwise); checkAndReplaceSequence returns normally only if "
    "the sequence does not have the wrong number of outputs, is not $(exe) of a non-binary or output-less rule and is not a tool at test time "
    "(it panics otherwise, which the caller turns into an error). Kernel-only: the regex dispatch, dependency lookup and the per-path "
    "join loop are not under contract.",
    COMMON_NOTE + "Outputs()/OutDir() are assumed pure functions of the target; filepath.Join is uninterpreted.",
    "contract-based deductive verification (own VC generator + SMT)", "6/C37")

CLAIMED["C21"] = (
    "Proof of glob()'s filtering kernels: isInDirectories / isBathPathOf are component-wise containment; shouldExcludeMatch excludes a match "
    "exactly when SOME exclude applies, with the base-name/full-path mode chosen per exclude (matchers abstracted as pure functions); the walk "
    "callback records every directory holding a BUILD file as a sub-package and skips plz-out; isHidden is correct on the base name — the "
    "statement's 'anything inside hidden directories' is proved outside the recorded known-finding region (hidden directory, non-hidden base "
    "name) with a canary obligation. Two clauses of toRegexString (`?` becomes `.`, literal dots are escaped) are BOUNDED stand-ins executed "
    "against the real function on an enumerated input space (not proved). Kernel-only: filepath.Match / regexp semantics and WalkDir are library code.",
    COMMON_NOTE + "patternToMatcher and matcher.Match are uninterpreted pure functions; filepath.Base/Dir/Join uninterpreted.",
    "contract-based deductive verification (+ bounded stand-in for two string-rewriting clauses)", "6/C21")

CLAIMED["C01"] = (
    "Proof of the decision kernels that make an incremental build skip a target: needsBuilding returns false ONLY IF the metadata file exists, "
    "the stored config, rule, source and secret hashes each equal the current ones (and the current ones could be computed), every declared "
    "output exists and no rebuild is forced — a path-sensitive postcondition over every path of the function; moveOutput reports an output as "
    "unchanged only if a file with the same hash already exists at its real location; readRuleHashFromXattrs answers with a stored hash only if "
    "EVERY output carries a record and all records agree (loop invariant over an equivalence axiom for bytes.Equal); sourceHash hashes contents, "
    "never timestamps (call-site obligation); the filegroup builder makes the recorded hash of an output follow its source on every successful "
    "path (ghost call flags); buildTarget declares a target reused only on a fresh negative needsBuilding answer (re-check after metadata was "
    "re-applied for self-modifying targets); moveOutputs collects every declared and optional output. Kernel-only: equality of whole output "
    "trees over edit histories quantifies over command execution and the file system and is not a contract; the rule hash function itself "
    "(C07-C09) is not under contract.",
    COMMON_NOTE + "File-system, xattr and hash reads (FileExists, PathExists, readRuleHashFromXattrs, RuleHash, sourceHash, secretHash, "
    "PathHasher.Hash) are assumed functions of their arguments for the duration of one decision; RuleHash's memoisation is abstracted; "
    "bytes.Equal is uninterpreted.",
    "contract-based deductive verification (path-sensitive postcondition, all callees by assumed contract)", "6/C01")

CLAIMED["C03"] = (
    "Proof of the no-op / cut-off kernels: needsBuilding returns false whenever everything it compares is unchanged (so an unchanged tree runs "
    "no command); moveOutput returns unchanged exactly when the existing file has the new file's hash, and call-site obligations show that "
    "in that case nothing is renamed, removed or copied; otherwise the memoised hash is moved from the temporary to the real path (so dependents "
    "see the new output hash). Kernel-only: that the SET of commands run across two invocations is minimal is a relation between process runs.",
    COMMON_NOTE + "Same assumed functions as C01.",
    "contract-based deductive verification (biconditional postconditions + call-site obligations)", "6/C03")

CLAIMED["C11"] = (
    "Proof about the three local decision functions of test() (function literals under contract): needToRun returns false ONLY IF no rerun is "
    "forced and either the target is Unchanged/Reused, its result file exists and carries the current runtime hash (and the coverage file too "
    "when coverage is needed), or the cache was consulted — with the current hash; cacheOutputFiles stores results as reusable ONLY IF no test "
    "arguments were given and no case failed, and it stores under the current hash; test() hands results to cacheOutputFiles only under "
    "AllSucceeded(). Hence failing results are never stored for reuse. The runtime rule hash includes the TEST command for tests, and a "
    "filegroup output's recorded hash follows its source (shared with C08/C01). Kernel-only: RuntimeHash's file hashing and equality of "
    "incremental and fresh outcomes are not under contract.",
    COMMON_NOTE + "verifyHash is verified to be EQUALITY of the given hash and the file's recorded tag; target.State(), PathExists are assumed functions of their arguments; retrieveFromCache, moveOutputFile, Cache.Store are "
    "opaque; deep callees of test() whose bodies leave the supported subset (select, os/exec) are treated as opaque calls.",
    "contract-based deductive verification (function-literal contracts, call-site obligations + SMT)", "6/C11")

CLAIMED["C12"] = (
    "Proof (call-site and return-site obligations on the real Store / storeFiles / storeFile / ensureStoreReady / tarHeader / retrieveFiles) that a "
    "cache entry is assembled only under its temporary name (<key>=) and published by one rename whose source and destination are exactly the "
    "temporary and final names (which differ: string lemma on getFullPath's proved shape); that the final name is otherwise touched only by the "
    "initial removal; that every file-system call of storeFile is under the directory it was given; that a stale temporary entry is removed "
    "whole (RemoveAll) before reuse; that names inside a compressed entry are the path relative to the output directory with only the slash "
    "stripped; and that a key that was never stored is a miss. At the granularity of file-system calls this is the crash-atomicity argument. "
    "Kernel-only: byte-identity of restored trees (tar/gzip/hard links) and atomicity of rename(2) itself are library / OS behaviour.",
    COMMON_NOTE + "fs.RemoveAll / RecursiveLink / os.Rename are opaque file-system calls that change no Go heap; getPath is an assumed pure function.",
    "contract-based deductive verification (call-site / return-site obligations, called() flags + SMT)", "6/C12")

CLAIMED["C04"] = (
    "Proof, valid for every interleaving because it is a property of each thread's own path, that queueTargetAsync hands a target to the build "
    "queue (addPendingBuild) only when it was asked to build, only if it itself won the Active->Pending compare-and-swap, and only after, in the "
    "same round, it waited for every dependency and observed each of them below DependencyFailed (ghost counters tracked at call sites + loop "
    "invariant); that it marks the target DependencyFailed only when a dependency was observed failed; that queueResolvedTarget starts the "
    "asynchronous queueing only for the winner of a transition out of Inactive/Semiactive (with only legal transitions requested) and counts "
    "the pending task before the goroutine is spawned. Kernel-only: the global 'at most once' argument additionally needs that no other site "
    "moves a target back to Active (a whole-repository site invariant that is not implemented), and the worker loop and 'reported exactly "
    "once' are outside. Waiting itself: waitOnChan returns only on a path that completed a receive on the channel (select modelled as an "
    "arbitrary choice; the 'still waiting' timer only logs), and WaitForBuild waits on the target's own finishedBuilding channel; that "
    "only FinishBuild closes that channel is not proved.",
    COMMON_NOTE + "resolveDependencies, SyncUpdateState, addPendingBuild etc. are opaque calls (they may change any heap); atomic "
    "compare-and-swap is assumed linearizable; goroutine bodies are not executed (go statements are call sites only).",
    "contract-based deductive verification (tracked ghosts at call sites, call-site obligations + SMT)", "6/C04")

CLAIMED["C13"] = (
    "Proof that both cache writers abort a store as soon as an output cannot be read while the archive is being written: the command "
    "cache's write() calls cancel (killing the store command) on the early-return path and at exit, and httpCache.write closes the pipe "
    "feeding the request body WITH the error, so the request fails instead of delivering a well-formed but incomplete archive (ghost flag set "
    "from fs.Walk's result, loop invariant 'no failure so far'; the HTTP half was a recorded known finding until repaired in /repo). readTar "
    "reports a hit only if no directory, open, copy, close or link step failed, and httpCache.retrieve reports an error as a miss. "
    "cmdCache.Retrieve reports a hit only if readTar did; its waiting goroutine reports a clean exit only for a nil error from Wait and "
    "closes the READ end of the pipe first (never the write end, which would turn a truncated stream into a clean EOF). "
    "Kernel-only: HTTP server and custom-command behaviour and io.Pipe/archive/tar themselves are outside.",
    COMMON_NOTE + "fs.Walk is an assumed iteration contract; storeFile (tar writing) is opaque; cancel is an opaque callback.",
    "contract-based deductive verification (tracked ghosts, return-site obligations + SMT)", "6/C13")

CLAIMED["C32"] = (
    "Proof of the ordering kernels that make a crash recoverable, as call-site obligations over ghost state recording the calls made so far and "
    "their results: fs.WriteFile creates its temporary file beside the destination, touches only the temporary before the final rename, and "
    "returns nil only after renameFile (which tries an atomic os.Rename first); StoreTargetMetadata removes the old metadata file (and with it "
    "the old hash record) before creating the new one; buildTarget collects outputs only after the metadata was stored, records the rule hash "
    "only after every output was collected (moveOutputs: ghost counter proves every declared and optional output went through moveOutput), "
    "reaches the bare writeRuleHash only after a successful cache retrieve, and declares a target reused only on a fresh negative needsBuilding "
    "answer; readRuleHashFromXattrs treats a half-updated set of hash records as no record. Kernel-only: the crash itself (SIGKILL at an "
    "arbitrary instant, what the kernel leaves on disk) and the comparison of the recovery build with a clean build are outside any contract.",
    COMMON_NOTE + "os.*, io.Copy, xattr and cache calls are opaque; the file system is not modelled — the obligations constrain the ORDER and "
    "ARGUMENTS of effects, not their outcome; callees of buildTarget without contracts are opaque (opt inline=off).",
    "contract-based deductive verification (ghost call history, call-site and return-site obligations, loop invariants + SMT)", "6/C32")

CLAIMED["C34"] = (
    "Proof, per entry of the tree walk in RecursiveCopyOrLinkFile (the walk callback is a function literal under contract): a directory is "
    "created at the same relative path under the destination, a symlink is recreated there with the target read from the source link, any "
    "other file is copied or linked there with the caller's mode/link/fallback arguments, and a nil result means exactly the matching action "
    "was taken (ghost call flags); CopyOrLinkFile and copySymlink pass the source only as the thing read and the destination as the thing "
    "written, and never chmod/chown/remove/rename/truncate anything (a hard link shares the source's inode). Kernel-only: that the walk visits "
    "every entry is the assumed iteration contract of fs.WalkMode; byte equality of contents is io.Copy inside CopyFile/WriteFile (opaque).",
    COMMON_NOTE + "os.* calls are opaque; the getters of the fs.Mode interface are assumed pure; the file system is not modelled.",
    "contract-based deductive verification (function literal under contract, call-site obligations, ghost call flags + SMT)", "6/C34")

CLAIMED["C28"] = (
    "Proof that the Directory message dirBuilder.walk hands to the digest computation lists its files, its directories and its symlinks in "
    "strictly increasing name order (sorted and duplicate-free: three de-duplication loops with invariants over the shared `last` name, on top "
    "of the assumed contract of sort.Slice for the less function given), whatever order the entries were added in; that hasChild answers exactly "
    "'a child directory node of that name exists' (so dir() links a new directory into its parent exactly once); that buildEnv returns the "
    "environment variables sorted by name; and that buildCommand writes the per-target `export K=V` prefix in sorted key order, not map order "
    "(ghost: the key written by the previous Fprintf). Kernel-only: equality of whole digests over all insertion orders is a relation between "
    "runs (permutation invariance of the construction as a whole) and protobuf marshalling is library code.",
    COMMON_NOTE + "sort.Slice / sort.Strings / slices.SortFunc are assumed to reorder in place (multiset abstraction) and to establish the order "
    "of the comparison function given; the in-place filter idiom (dir.Files = files[:0]; append) is modelled value-semantically (its aliasing "
    "is harmless because the write index never passes the read index, which is not itself proved); pb.* message structs are modelled field by "
    "field; uploadinfo/digest calls are opaque.",
    "contract-based deductive verification (loop invariants over sort postconditions, call-site obligations, ghost last-key + SMT)", "6/C28")

CLAIMED["C16"] = (
    "Proof of the kernels of the interpreter where agreement with Python can be stated per function: operator precedence has Python's order "
    "(exact table) and interpretOps gives an operator only the RUN of strictly tighter operators as its right operand (left associativity; "
    "exposed 10 - 2 * 3 - 1 == 5, repaired); integer % has the sign of the divisor (exposed -7 % 3 == -1, repaired); and value independence: "
    "list + list, sorted(), reversed() and list slices return fresh lists and never write into their operands (frame obligations with "
    "slice-origin tracking through interface boxes, append-into-spare-capacity check, fresh(result)), and a constant list literal is handed "
    "out as a copy, not as the object cached in the AST (five aliasing defects exposed and repaired). Kernel-only and narrow: agreement of "
    "every evaluated value with CPython is a relation to an external interpreter; floor division (float based), comprehensions, string "
    "methods, formatting, range and the parser's grammar are not under contract.",
    COMMON_NOTE + "sort.Slice / slices.Reverse are assumed in-place permutations; slices.Clone/Clip yield full, unshared slices; the key function "
    "and comparison operators are arbitrary code (modifies heap).",
    "contract-based deductive verification (exact postconditions, frame obligations over slice origins, call-site obligations on recursion + SMT)", "6/C16")

CLAIMED["C17"] = (
    "Proof that freezing is deep and that frozen containers cannot be written: pyList.Freeze returns a pyFrozenList whose items are, position by "
    "position, the frozen versions of the freezable items (loop invariant; exposed the defect repaired by 7019736: the original list was wrapped "
    "instead of the frozen copy); pyDict.Freeze returns a pyFrozenDict over a FRESH map with the frozen version of every value (map-iteration "
    "invariant); IndexAssign on pyFrozenList, pyFrozenDict and pyFrozenConfig, and setdefault on a frozen dict, never return normally; sorted(), "
    "reversed() and list + list never write into their arguments (frame obligations), so a list another package holds is never reordered. "
    "Kernel-only: that every value crossing a package boundary goes through Freeze (subinclude, CONFIG) and the absence of other mutators is the "
    "interpreter's structure, not a per-function contract; concurrency of package parses is outside the sequential model.",
    COMMON_NOTE + "(freezable).Freeze on an element is an interface call assumed to be a function of the element; interface-to-interface type "
    "assertions are decided from go/types method sets.",
    "contract-based deductive verification (loop and map-iteration invariants, must-not-return postconditions, frame obligations + SMT)", "6/C17")

CLAIMED["C18"] = (
    "Proof that the list builtins named in the statement accept frozen lists: in sorted, reversed, filter, map, reduce, enumerate, any, all, "
    "min/max (extreme) and zip the 'must be a list' assertion cannot fail for a pyList or a pyFrozenList argument (call-site obligations on "
    "scope.Assert; asList proved to succeed exactly on those two types and to return the items) — exposed the defect repaired by 8165d29; and "
    "that == / != never apply reflect.DeepEqual (which separates frozen from ordinary containers) to a list or dict: pyEqual compares "
    "containers item by item through asList/asDict and only other values by DeepEqual — exposed the defect repaired by 7900a64. "
    "Kernel-only: len, in and + are promoted methods of the embedded pyList (nothing to prove); the dict builtins reach the embedded pyDict "
    "through pyFrozenDict.Property and are not under contract.",
    COMMON_NOTE + "Builtins are verified with callees opaque (opt inline=off); the user-supplied key/lambda is arbitrary code.",
    "contract-based deductive verification (call-site obligations on the interpreter's assertion points, type-switch postconditions + SMT)", "6/C18")

CLAIMED["C08"] = (
    "Proof of the necessary half of the statement: when ruleHash returns, the value of each build-relevant attribute has been written to "
    "the hash — the label, every declared dependency, declared hash, source, output, optional output, label, secret, requirement and output "
    "directory (one loop invariant per list, over a monotone ghost SET of the strings written), every pass_env name and its value, the "
    "command, the file content, and (through hashMap, proved to write every key=value entry of its argument) the entry points and the env. "
    "NOT proved, and false: that different attribute values always give different streams — writes are concatenated without separators or field "
    "tags, so Labels [ab c] / [a bc], or the string x as a label vs as a secret, collide; demonstrated against the real code "
    "(findings/C08) and recorded as a known finding that no obligation here can express. Also covered: every licence, every named output "
    "(name and files), every provides language and label (the sorted key list still holds every key: one-directional permutation axiom), "
    "the runtime-only data, test outputs, test sandbox flag and args placeholder, and every boolean attribute (sets of the values handed to "
    "hashBool / hashOptionalBool: for all inputs, so a dropped call is refuted by the input where only that flag is set); every loop writes "
    "exactly one string per element (ghost write counter), so an element skipped because its value was already written is caught. "
    "Visibility is not hashed by design.",
    COMMON_NOTE + "hash.Hash.Write is opaque; what is tracked is the set of byte strings passed to it (string([]byte(s)) == s is an axiom of "
    "the conversion model); accessors of the target are assumed pure; os.Getenv is a function of its argument.",
    "contract-based deductive verification (monotone ghost set of hashed strings, loop invariants, map-iteration invariant + SMT)", "6/C08")

CLAIMED["C10"] = (
    "Proof that every read of the process environment on the way to a build environment names a variable listed for that purpose: in "
    "TargetEnvironment each os.Getenv argument is an element of the target's pass_env / pass_unsafe_env; in Configuration.getBuildEnv each "
    "os.LookupEnv argument is an element of the list handed to its helper, and the helper is only handed config.Build.PassEnv or (when asked) "
    "PassUnsafeEnv; BuildEnvironment and GeneralBuildEnvironment read no environment variable at all; os.Environ is never consulted in any of "
    "them; and every pass_env name and value is fed to the rule hash (ruleHash#post:pass_env), so changing one changes the hash. Kernel-only: "
    "that the child process receives exactly this environment (exec.Cmd.Env, the sandbox tool) and that outputs do not depend on other "
    "variables is process execution, outside any contract; test/run/exec environments are not under contract.",
    COMMON_NOTE + "Callees without contracts are opaque (opt inline=off); call-site clauses may use the index of the enclosing range loop.",
    "contract-based deductive verification (call-site obligations on environment reads + SMT)", "6/C10")

CLAIMED["C09"] = (
    "The per-entry callback of the directory walk in PathHasher.hash is under contract (a function literal with a ghost set of the byte "
    "strings it writes to the hash): proved that a regular file's contents are hashed (fileHash is called on exactly that entry) and that a "
    "symlink leaves a marker; the two obligations the statement needs on top — the entry's relative name (its position) and a symlink's "
    "target reach the hash — FAIL for every entry and are RECORDED KNOWN FINDINGS (region: any entry, canaries keep them honest; "
    "demonstrated against the real code in findings/C09: renames, moves into subdirectories, retargeted links, empty directories and bytes "
    "moved between adjacent files leave the hash unchanged). Kernel-only: single-file and top-level symlink hashing, memoisation and xattr "
    "storage are not under contract; collision-freedom of the hash function itself is cryptography.",
    COMMON_NOTE + "fs.WalkMode is an assumed iteration contract; fileHash (io.Copy into the hash) is opaque.",
    "contract-based deductive verification (function literal under contract, ghost set of hashed strings, known-finding regions + SMT)", "6/C09")

CLAIMED["C19"] = (
    "Memory safety of the lexer for ALL inputs, proved against a representation invariant (lexOK: the buffer ends in two NUL bytes preceded "
    "by a newline, the position is at or before the first terminator, the indent stack is non-empty with 0 at the bottom): newLexer "
    "establishes it for any byte sequence read; stripSpaces, AssignFollows, consumeInteger, consumeString (escape and triple-quote look-ahead "
    "included), consumePossiblyTripleQuotedString, consumeIdent (with an assumed contract of utf8.DecodeRune), nextToken (recursion by "
    "contract) and Next preserve it up to and including the EOF token, with every index/slice/nil obligation discharged — so every token "
    "stream is produced without an index-out-of-range, and the only other exits are lex.fail (a positioned error). Plus a safety contract "
    "for concatStrings (adjacent string / f-string literals), which exposed the crash repaired by 75a8de7. Kernel-only: termination is not "
    "proved (partial correctness); the recursive-descent parser itself (grammar_parse.go) is not under contract, in particular that it never "
    "advances the lexer past EOF is assumed; errors.go is not under contract.",
    COMMON_NOTE + "io.ReadAll is opaque (any byte sequence); unicode.IsLetter/IsDigit are pure; bytes are mathematical integers 0..255.",
    "contract-based deductive verification (representation invariant, loop invariants, no-panic obligations + SMT)", "6/C19")

CLAIMED["C07"] = (
    "Proof that nothing is fed to a target hash in Go's randomised map iteration order: at every Write (and hashBool/hashMap call) in ruleHash, "
    "hashMap and sourceHash the execution is outside any loop ranging over a map (engine predicate inmaprange()); the key lists built from "
    "maps are sorted before they are iterated (hashMap and the provides keys: invariant obligations established from sort.Strings; "
    "DeclaredOutputNames returns a sorted list; allBuildInputs appends named sources in sorted key order). Kernel-only: independence of "
    "thread count and package parse order for whole `plz hash` runs is a relation between process runs; that the slices a target holds are "
    "themselves built deterministically by the parser is not under contract.",
    COMMON_NOTE + "sort.Strings is an assumed contract (permutation + order).",
    "contract-based deductive verification (call-site obligations over an in-map-range predicate, sortedness invariants + SMT)", "6/C07")

CLAIMED["C02"] = (
    "Proof of the keying and verification kernels of cache restores: targetHash is exactly the two rule hashes, the configuration hash and "
    "the source hash concatenated in that order (element-wise postcondition) and fails when the source hash fails; retrieveArtifacts and "
    "buildTarget ask and fill the cache only under keys computed by mustShortTargetHash for the same target; a restore counts as a hit only "
    "after calculateAndCheckRuleHash returned nil, and after a failed verification the restored outputs are removed (RemoveOutputs, proved to "
    "remove every declared output) and the restore is a miss; sourceHash hashes every path of every tool in AllTools() (named tools included; "
    "monotone ghost set of the paths handed to the path hasher). Together with C12 (complete-or-nothing directory cache entries). Kernel-only: "
    "that equal keys imply equal definitions and inputs rests on the hash functions (C07-C09, with their recorded findings); byte-for-byte "
    "equality of restored and built trees is outside any contract.",
    COMMON_NOTE + "mustShortTargetHash is used as a function of (state, target) at the time of the call; cache back ends are opaque.",
    "contract-based deductive verification (element-wise postcondition, ghost call history, call-site obligations + SMT)", "6/C02")

CLAIMED["C23"] = (
    "Proof of the soundness half of the level limit in `plz query deps`: a target is printed only strictly inside the limit, and every "
    "recursive step goes exactly one level deeper except along an edge to a hidden sub-target of the same rule, which costs nothing "
    "(call-site obligations on the recursion of deps); for somepath: the recursive search keeps the same destination, graph and bookkeeping, "
    "and a reported path starts at the target it was asked about. The completeness half is FALSE and recorded as a known finding "
    "(demonstrated in findings/C23: a->b->c->d->e plus a->d with --level 3 does not report e, two steps away): no obligation of deps can "
    "express reachability within N steps over the graph. Kernel-only: revdeps and that every somepath edge is a real dependency edge are not "
    "under contract.",
    COMMON_NOTE + "Graph accessors are assumed pure; printing is opaque.",
    "contract-based deductive verification (call-site obligations on a recursive function + SMT)", "6/C23")

CLAIMED["C24"] = (
    "Proof of the collection kernels of `plz query changes`: diffGraphs puts into its result every target of the after-graph that is new, "
    "whose definition or tool paths differ (targetChanged), or any target when the configuration hash differs (loop invariant + "
    "postcondition over all targets); in changedTargets every target of the package found for a changed file that has the file as a source "
    "is added to the changed set, nothing is ever removed from that set, and when a level is given FindRevdeps is asked for the labels of "
    "exactly that set to exactly that depth. Kernel-only: that the package found is the closest enclosing one, that the final "
    "filter/sort keeps every included label, and FindRevdeps itself (transitive closure) are not under contract; `plz query changes` over "
    "real checkouts is process-level.",
    COMMON_NOTE + "targetChanged, HasAbsoluteSource and the graph accessors are assumed functions of their arguments.",
    "contract-based deductive verification (loop invariants over sets-as-maps, call-site obligations + SMT)", "6/C24")

CLAIMED["C29"] = (
    "Proof that link following in the CAS file system view is bounded and well-directed: open starts openFollowing with zero hops; "
    "openFollowing follows only relative targets, resolves them beside the link, and the number of hops still allowed is non-negative and "
    "strictly decreases at every recursive call (a termination measure stated as a call-site obligation), so a symlink loop ends in an "
    "error (exposed the unbounded recursion repaired in /repo). findNode returns a file or a symlink only for the last path component and "
    "with exactly the name asked. dir.ReadDir satisfies io/fs.ReadDirFile: it returns the rest of the listing (all directories, files and "
    "symlinks, counting invariants) from the current offset, at most n entries for n > 0, advances the offset by what it returned, and "
    "reports the end as io.EOF exactly when nothing is left (exposed the restart-from-zero defect, first recorded, then repaired), with every "
    "nil/index obligation discharged. Kernel-only: Stat and the file/dir info types are not under contract; a tree whose child digests are "
    "missing from the tree is outside the precondition.",
    COMMON_NOTE + "openFile, openDir and the info constructors are opaque; pb message structs are modelled field by field.",
    "contract-based deductive verification (termination measure as call-site obligation, counting invariants, exact postconditions + SMT)", "6/C29")

NOT_APPLICABLE = {
    "C05": "liveness / whole-run exit status under all schedules: no per-call contract expresses it (safety fragment is under C04)",
    "C30": "OS process groups, signals and wall-clock bounds; goroutines and select are outside the sequential contract model",
    "C31": "multi-process flock interaction on a shared plz-out; no per-call contract expresses it",
    "C38": "equivalence of two evaluations across the external buildtools formatter; no function in /repo decides it",
}

def main():
    props = [json.loads(l) for l in open(os.path.join(ROOT, "properties.jsonl"))]
    checks = []
    na = []
    for p in props:
        pid = p["id"]
        if pid in CLAIMED:
            text, note, tech, ref = CLAIMED[pid]
            checks.append({
                "property_id": pid,
                "quick_cmd": f"./check {pid} --tier quick",
                "thorough_cmd": f"./check {pid} --tier thorough",
                "evidence_file": f"/verif/evidence/{pid}.json",
                "replay_cmd_template": f"./check {pid} --replay {{path}}",
                "engine": "govc",
                "level_claimed": {"category": "proof", "text": text, "design_ref": "DESIGN.md §" + ref},
                "level_note": note,
                "technique": tech,
            })
        else:
            reason = NOT_APPLICABLE.get(pid, "not implemented yet in this framework (planned, see DESIGN.md §6); no claim is made")
            na.append({"property_id": pid, "reason": reason})
    hooks_commits = os.popen("git -C /repo log --format=%h --grep='^verif hook'").read().split()
    man = {
        "version": 1,
        "setup_cmd": "./setup.sh",
        "hooks": {
            "guard": "verif",
            "enable": "-tags verif (go/packages BuildFlags); the hook files are comment-only contract files src/<pkg>/verif_contracts.go",
            "baseline_off_cmd": BASELINE_OFF,
            "source_commits": hooks_commits,
            "add_only": True,
        },
        "engines": [{
            "name": "govc", "path": "/verif/engine",
            "serves_properties": sorted(CLAIMED),
            "kind_free_text": "deductive verifier for a Go subset: contracts in //@ comments, VC generation by symbolic execution over go/ast+go/types, SMT portfolio (z3, z3-new, cvc5)",
        }],
        "checks": checks,
        "not_applicable": na,
        "notes": "See DESIGN.md. Known findings and repaired defects are listed in /verif/known_findings.json.",
    }
    with open(os.path.join(ROOT, "MANIFEST.json"), "w") as f:
        json.dump(man, f, indent=1)
        f.write("\n")
    print(f"MANIFEST.json: {len(checks)} checks, {len(na)} not applicable")

if __name__ == "__main__":
    main()
