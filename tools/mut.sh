#!/bin/bash
# usage: mut.sh <prop> <file-relative-to-repo> <sed-expression> [lines]  — apply, check, revert
prop="$1"; file="$2"; expr="$3"
cd /repo && sed -i "$expr" "$file" && git diff --stat -- "$file" | tail -1
cd /verif && ./check "$prop" 2>&1 | grep -v "^loaded" | tail -${4:-8}
cd /repo && git checkout -- "$file"
