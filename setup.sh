#!/bin/bash
# Builds the verifier (govc) from /verif/engine, offline.
set -e
cd "$(dirname "$0")/engine"
export PATH=/opt/veriftools/go1.26.8/bin:$PATH GOTOOLCHAIN=local GOFLAGS=-mod=mod GOPROXY=off GOSUMDB=off
mkdir -p ../bin ../out
go build -o ../bin/govc .
echo "govc built"
