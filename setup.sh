#!/bin/bash
# Builds the verifier (govc) from /verif/engine, offline. The engine's dependencies (golang.org/x/tools and what it
# needs) are vendored under engine/vendor, so the build does not depend on the Go module cache.
set -e
cd "$(dirname "$0")/engine"
export PATH=/opt/veriftools/go1.26.8/bin:$PATH GOTOOLCHAIN=local GOPROXY=off GOSUMDB=off
mkdir -p ../bin ../out
GOFLAGS=-mod=vendor go build -o ../bin/govc . || GOFLAGS=-mod=mod go build -o ../bin/govc .
echo "govc built"
