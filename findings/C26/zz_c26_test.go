package test

import (
	"testing"

	"github.com/thought-machine/please/src/core"
)

// Two bare <testcase> elements, "a" failing and "b" passing: the JUnit reader drops their names, so the
// per-name merge doFlakeRun applies (TestSuite.Add) folds them into one case with a failing and a passing
// execution, which counts as a (flaky) pass - the target is reported as passing although "a" failed.
func TestBareTestcasesKeepTheirNames(t *testing.T) {
	data := []byte(`<testcase name="a"><failure type="x" message="boom">tb</failure></testcase><testcase name="b"></testcase>`)
	suite, err := parseTestResultDatum(data)
	if err != nil {
		t.Fatal(err)
	}
	for i, c := range suite.TestCases {
		t.Logf("parsed case %d: name=%q executions=%d", i, c.Name, len(c.Executions))
	}
	results := core.TestSuite{}
	results.Add(suite.TestCases...) // as doFlakeRun does with the cases of one run
	t.Logf("cases=%d passes=%d failures=%d allSucceeded=%v", len(results.TestCases), results.Passes(), results.Failures(), results.TestCases.AllSucceeded())
	if len(results.TestCases) != 2 || results.Failures() != 1 || results.TestCases.AllSucceeded() {
		t.Fatalf("two cases (a failed, b passed) reported as %d case(s), %d failure(s), allSucceeded=%v", len(results.TestCases), results.Failures(), results.TestCases.AllSucceeded())
	}
}
