package fs

import (
	"io"
	iofs "io/fs"
	"os"
	"os/exec"
	"runtime/debug"
	"strings"
	"testing"

	pb "github.com/bazelbuild/remote-apis/build/bazel/remote/execution/v2"
)

func treeWith(files []string, links map[string]string) *pb.Tree {
	root := &pb.Directory{}
	for _, f := range files {
		root.Files = append(root.Files, &pb.FileNode{Name: f, Digest: &pb.Digest{Hash: "00", SizeBytes: 1}})
	}
	for n, t := range links {
		root.Symlinks = append(root.Symlinks, &pb.SymlinkNode{Name: n, Target: t})
	}
	return &pb.Tree{Root: root}
}

// io/fs.ReadDirFile: ReadDir(n > 0) continues where the previous call stopped and ends with io.EOF.
func TestReadDirInChunksTerminates(t *testing.T) {
	fsys := New(nil, treeWith([]string{"a", "b", "c"}, nil), ".")
	f, err := fsys.Open(".")
	if err != nil {
		t.Fatal(err)
	}
	d := f.(iofs.ReadDirFile)
	var names []string
	for i := 0; i < 10; i++ {
		ents, err := d.ReadDir(2)
		for _, e := range ents {
			names = append(names, e.Name())
		}
		if err == io.EOF {
			break
		}
		if err != nil {
			t.Fatal(err)
		}
	}
	if strings.Join(names, ",") != "a,b,c" {
		t.Errorf("reading a 3-entry directory in chunks of 2 gave %v (the listing restarts on every call and never reports io.EOF)", names)
	}
}

// A symlink loop must fail cleanly, not crash the process.
func TestSymlinkLoopFailsCleanly(t *testing.T) {
	if os.Getenv("C29_CHILD") == "1" {
		debug.SetMaxStack(16 << 20) // make the unbounded recursion show up quickly
		fsys := New(nil, treeWith(nil, map[string]string{"a": "b", "b": "a"}), ".")
		_, err := fsys.Open("a")
		if err == nil {
			t.Errorf("opening a symlink loop succeeded")
		}
		return
	}
	cmd := exec.Command(os.Args[0], "-test.run", "TestSymlinkLoopFailsCleanly")
	cmd.Env = append(os.Environ(), "C29_CHILD=1", "GOMEMLIMIT=256MiB")
	out, err := cmd.CombinedOutput()
	if err != nil && strings.Contains(string(out), "stack") {
		t.Errorf("opening a symlink loop (a -> b -> a) crashed the process: %s", strings.SplitN(string(out), "\n", 3)[0:2])
	}
}
