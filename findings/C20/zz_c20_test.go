package asp

import (
	"testing"

	"github.com/thought-machine/please/src/core"
)

// An experimental directory exempts the packages under it from the sandbox opt-out whitelist, not its siblings.
func TestExperimentalDirIsAPathPrefix(t *testing.T) {
	state := core.NewDefaultBuildState()
	state.Config.Sandbox.ExcludeableTargets = []core.BuildLabel{core.ParseBuildLabel("//third_party/...", "")}
	state.Config.Parse.ExperimentalDir = []string{"experimental"}
	mk := func(l string) *core.BuildTarget { return core.NewBuildTarget(core.ParseBuildLabel(l, "")) }
	if err := validateSandbox(state, mk("//experimental/foo:t")); err != nil {
		t.Errorf("a target under the experimental directory is refused: %v", err)
	}
	if err := validateSandbox(state, mk("//experimental_other:t")); err == nil {
		t.Errorf("//experimental_other:t may opt out of the sandbox because its package name merely starts with the experimental directory's name")
	}
}
