package fs

import (
	"bytes"
	"crypto/sha1"
	"os"
	"path/filepath"
	"testing"
)

func hashOfTree(t *testing.T, build func(root string)) []byte {
	root := t.TempDir()
	dir := filepath.Join(root, "out")
	os.MkdirAll(dir, 0o755)
	build(dir)
	wd, _ := os.Getwd()
	defer os.Chdir(wd)
	os.Chdir(root)
	h, err := NewPathHasher(root, false, sha1.New, "sha1").Hash("out", true, false, false)
	if err != nil {
		t.Fatal(err)
	}
	return h
}

func write(t *testing.T, name, content string) {
	os.MkdirAll(filepath.Dir(name), 0o755)
	if err := os.WriteFile(name, []byte(content), 0o644); err != nil {
		t.Fatal(err)
	}
}

func TestDirectoryHashSeesNamesPositionsAndLinkTargets(t *testing.T) {
	a := hashOfTree(t, func(d string) { write(t, d+"/a.txt", "x") })
	b := hashOfTree(t, func(d string) { write(t, d+"/b.txt", "x") })
	if bytes.Equal(a, b) {
		t.Errorf("renaming a file inside the directory does not change its hash")
	}
	c := hashOfTree(t, func(d string) { write(t, d+"/sub/a.txt", "x") })
	if bytes.Equal(a, c) {
		t.Errorf("moving a file into a subdirectory does not change the hash")
	}
	e := hashOfTree(t, func(d string) { write(t, d+"/a.txt", "x"); os.Symlink("a.txt", d+"/l") })
	f := hashOfTree(t, func(d string) { write(t, d+"/a.txt", "x"); os.Symlink("other", d+"/l") })
	if bytes.Equal(e, f) {
		t.Errorf("changing a symlink's target inside the directory does not change the hash")
	}
	g := hashOfTree(t, func(d string) { write(t, d+"/a.txt", "x"); os.MkdirAll(d+"/empty", 0o755) })
	if bytes.Equal(a, g) {
		t.Errorf("adding an empty directory does not change the hash")
	}
	h1 := hashOfTree(t, func(d string) { write(t, d+"/a", "xy"); write(t, d+"/b", "") })
	h2 := hashOfTree(t, func(d string) { write(t, d+"/a", "x"); write(t, d+"/b", "y") })
	if bytes.Equal(h1, h2) {
		t.Errorf("moving bytes from one file to the next does not change the hash")
	}
}
