package cmap

import "testing"

// Contains reports keys that have a value; a key somebody is only waiting for is not in the map.
func TestContainsAfterGetOrWait(t *testing.T) {
	m := New[string, int](4, func(s string) uint64 { return uint64(len(s)) })
	if _, ch, first := m.GetOrWait("k"); ch == nil || !first {
		t.Fatal("expected to be the first waiter")
	}
	if m.Contains("k") {
		t.Errorf("Contains(k) is true although k was never added (somebody is only waiting for it)")
	}
	m.Add("k", 1)
	if !m.Contains("k") {
		t.Errorf("Contains(k) is false after Add")
	}
}
