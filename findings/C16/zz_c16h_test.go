package asp

import (
	"testing"

	"github.com/thought-machine/please/rules"
	"github.com/thought-machine/please/src/core"
)

// `in` on a list compares by value, for items that are themselves lists or dicts too.
func TestInComparesByValue(t *testing.T) {
	state := core.NewDefaultBuildState()
	parser := NewParser(state)
	src, err := rules.ReadAsset("builtins.build_defs")
	if err != nil {
		t.Fatal(err)
	}
	parser.MustLoadBuiltins("builtins.build_defs", src)
	for _, code := range []string{"y = [1] in [[1], [2]]", "y = {'a': 1} in [{'a': 1}]", "y = [3] not in [[1], [2]]", "y = 1 in [1, 2]", "y = 'a' in ['a']"} {
		stmts, err := parser.ParseData([]byte(code+"\n"), "test.build")
		if err != nil {
			t.Fatalf("%s: %v", code, err)
		}
		s := parser.interpreter.scope.NewScope("test.build", core.ParseModeNormal)
		func() {
			defer func() {
				if r := recover(); r != nil {
					t.Errorf("%-30s failed: %v", code, r)
				}
			}()
			s.interpretStatements(stmts)
			if !s.Lookup("y").IsTruthy() {
				t.Errorf("%-30s is False, Python gives True", code)
			}
		}()
	}
}
