package asp

import (
	"testing"

	"github.com/thought-machine/please/rules"
	"github.com/thought-machine/please/src/core"
)

// Operator precedence and left associativity as in Python.
func TestArithmeticAgreesWithPython(t *testing.T) {
	state := core.NewDefaultBuildState()
	parser := NewParser(state)
	src, err := rules.ReadAsset("builtins.build_defs")
	if err != nil {
		t.Fatal(err)
	}
	parser.MustLoadBuiltins("builtins.build_defs", src)
	for code, want := range map[string]int{
		"y = 10 - 2 * 3 - 1": 3, "y = 10 - 2 * 3 + 1": 5, "y = 20 - 8 // 2 - 3": 13, "y = 2 * 3 - 1": 5, "y = 1 + 2 * 3 + 4": 11,
		"y = 10 - 4 - 3": 3, "y = 100 - 2 * 3 * 4 - 6": 70, "y = 7 - 1 * 2 - 1 * 3": 2,
	} {
		stmts, err := parser.ParseData([]byte(code+"\n"), "test.build")
		if err != nil {
			t.Fatalf("%s: %v", code, err)
		}
		s := parser.interpreter.scope.NewScope("test.build", core.ParseModeNormal)
		s.interpretStatements(stmts)
		if got := s.Lookup("y"); got != pyInt(want) {
			t.Errorf("%-26s gives %v, Python gives %d", code, got, want)
		}
	}
}
