package asp

import (
	"testing"

	"github.com/thought-machine/please/rules"
	"github.com/thought-machine/please/src/core"
)

// Evaluating a list literal twice yields independent fresh lists.
func TestListLiteralIsFreshEachTime(t *testing.T) {
	state := core.NewDefaultBuildState()
	parser := NewParser(state)
	src, err := rules.ReadAsset("builtins.build_defs")
	if err != nil {
		t.Fatal(err)
	}
	parser.MustLoadBuiltins("builtins.build_defs", src)
	code := "def flags():\n    return ['-b', '-a']\nx = flags()\nx[0] = 'evil'\ny = flags()\nok = y == ['-b', '-a']\nz = [[1]]\n"
	stmts, err := parser.ParseData([]byte(code), "test.build")
	if err != nil {
		t.Fatal(err)
	}
	stmts = parser.optimise(stmts)
	parser.interpreter.optimiseExpressions(stmts)
	s := parser.interpreter.scope.NewScope("test.build", core.ParseModeNormal)
	s.interpretStatements(stmts)
	if !s.Lookup("ok").IsTruthy() {
		t.Errorf("the second evaluation of the literal ['-b', '-a'] gave %v: it is the list the first caller modified", s.Lookup("y"))
	}
}
