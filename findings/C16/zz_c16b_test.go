package asp

import (
	"testing"

	"github.com/thought-machine/please/rules"
	"github.com/thought-machine/please/src/core"
)

// Two lists built from the same base list are independent values.
func TestListAdditionYieldsIndependentLists(t *testing.T) {
	state := core.NewDefaultBuildState()
	parser := NewParser(state)
	src, err := rules.ReadAsset("builtins.build_defs")
	if err != nil {
		t.Fatal(err)
	}
	parser.MustLoadBuiltins("builtins.build_defs", src)
	for _, code := range []string{
		"x = filter(lambda v: v, [1, 2, 3])\na = x + [10]\nb = x + [20]\ny = a == [1, 2, 3, 10] and b == [1, 2, 3, 20]",
		"x = [v for v in [1, 2, 3]]\na = x + [10]\nb = x + [20]\ny = a == [1, 2, 3, 10] and b == [1, 2, 3, 20]",
		"x = [v for v in [1, 2, 3] if v]\na = x + [10]\nb = x + [20]\ny = a == [1, 2, 3, 10] and b == [1, 2, 3, 20]",
		"x = 'a b c'.split(' ')\na = x + ['d']\nb = x + ['e']\ny = a == ['a', 'b', 'c', 'd'] and b == ['a', 'b', 'c', 'e']",
	} {
		stmts, err := parser.ParseData([]byte(code+"\n"), "test.build")
		if err != nil {
			t.Fatalf("%s: %v", code, err)
		}
		s := parser.interpreter.scope.NewScope("test.build", core.ParseModeNormal)
		s.interpretStatements(stmts)
		if !s.Lookup("y").IsTruthy() {
			t.Errorf("aliasing: after\n%s\na = %v, b = %v", code, s.Lookup("a"), s.Lookup("b"))
		}
	}
}
