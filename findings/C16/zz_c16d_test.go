package asp

import "testing"

// -7 % 3 is 2 in Python (the result takes the sign of the divisor).
func TestModuloFollowsPython(t *testing.T) {
	for _, c := range []struct{ a, b, want int }{{-7, 3, 2}, {7, -3, -2}, {7, 3, 1}, {-7, -3, -1}, {-6, 3, 0}} {
		got := pyInt(c.a).Operator(Modulo, pyInt(c.b))
		if got != pyInt(c.want) {
			t.Errorf("%d %% %d = %v, Python gives %d", c.a, c.b, got, c.want)
		}
	}
}
