package asp

import (
	"testing"

	"github.com/thought-machine/please/rules"
	"github.com/thought-machine/please/src/core"
)

// A slice of a list is a new list, as in Python.
func TestListSliceIsACopy(t *testing.T) {
	state := core.NewDefaultBuildState()
	parser := NewParser(state)
	src, err := rules.ReadAsset("builtins.build_defs")
	if err != nil {
		t.Fatal(err)
	}
	parser.MustLoadBuiltins("builtins.build_defs", src)
	stmts, err := parser.ParseData([]byte("x = [1, 2, 3]\ny = x[1:]\ny[0] = 99\nok = x == [1, 2, 3]\n"), "test.build")
	if err != nil {
		t.Fatal(err)
	}
	s := parser.interpreter.scope.NewScope("test.build", core.ParseModeNormal)
	s.interpretStatements(stmts)
	if !s.Lookup("ok").IsTruthy() {
		t.Errorf("assigning into y = x[1:] changed x to %v", s.Lookup("x"))
	}
}
