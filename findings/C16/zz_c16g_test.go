package asp

import (
	"testing"

	"github.com/thought-machine/please/rules"
	"github.com/thought-machine/please/src/core"
)

// range() as in Python: steps that do not divide the span, and negative steps.
func TestRangeFollowsPython(t *testing.T) {
	state := core.NewDefaultBuildState()
	parser := NewParser(state)
	src, err := rules.ReadAsset("builtins.build_defs")
	if err != nil {
		t.Fatal(err)
	}
	parser.MustLoadBuiltins("builtins.build_defs", src)
	for code, want := range map[string]string{
		"y = [x for x in range(5, 0, -2)]": "[5 3 1]", "y = [x for x in range(0, 5, 2)]": "[0 2 4]",
		"y = [x for x in range(5, 0)]": "[]", "y = [x for x in range(0, 6, 2)]": "[0 2 4]", "y = [x for x in range(1, 4)]": "[1 2 3]",
	} {
		stmts, err := parser.ParseData([]byte(code+"\n"), "test.build")
		if err != nil {
			t.Fatalf("%s: %v", code, err)
		}
		s := parser.interpreter.scope.NewScope("test.build", core.ParseModeNormal)
		func() {
			defer func() {
				if r := recover(); r != nil {
					t.Errorf("%-36s failed: %v", code, r)
				}
			}()
			s.interpretStatements(stmts)
			if got := s.Lookup("y").String(); got != want {
				t.Errorf("%-36s gives %s, Python gives %s", code, got, want)
			}
		}()
	}
}
