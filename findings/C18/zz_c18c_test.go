package asp

import (
	"testing"

	"github.com/thought-machine/please/rules"
	"github.com/thought-machine/please/src/core"
)

// A list imported via subinclude is frozen; passing it to the list builtins must work as for any list.
func TestSyntaxAcceptsFrozenLists(t *testing.T) {
	state := core.NewDefaultBuildState()
	parser := NewParser(state)
	src, err := rules.ReadAsset("builtins.build_defs")
	if err != nil {
		t.Fatal(err)
	}
	parser.MustLoadBuiltins("builtins.build_defs", src)
	for _, code := range []string{
		"y = X[1:]", "y = X[0]", "a, b, c = X", "y = \"%s\" % X", "y = sorted([X, X])", "y = [v for v in X]", "y = X[-1]", "y = X[:2] + X[2:]",
		
		
	} {
		stmts, err := parser.ParseData([]byte(code+"\n"), "test.build")
		if err != nil {
			t.Fatalf("%s: %v", code, err)
		}
		s := parser.interpreter.scope.NewScope("test.build", core.ParseModeNormal)
		s.Set("X", pyList{pyInt(3), pyInt(1), pyInt(2)}.Freeze()) // what subinclude() hands to the includer
		func() {
			defer func() {
				if r := recover(); r != nil {
					t.Errorf("%-45s with a frozen list: %v", code, r)
				}
			}()
			s.interpretStatements(stmts)
		}()
	}
}
