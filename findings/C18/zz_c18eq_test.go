package asp

import (
	"testing"

	"github.com/thought-machine/please/rules"
	"github.com/thought-machine/please/src/core"
)

// A frozen list/dict compares equal to an ordinary one with the same contents.
func TestFrozenValuesCompareEqualToOrdinaryOnes(t *testing.T) {
	state := core.NewDefaultBuildState()
	parser := NewParser(state)
	src, err := rules.ReadAsset("builtins.build_defs")
	if err != nil {
		t.Fatal(err)
	}
	parser.MustLoadBuiltins("builtins.build_defs", src)
	for _, code := range []string{
		"y = X == [3, 1, 2]", "y = [3, 1, 2] == X", "y = not (X != [3, 1, 2])", "y = D == {'a': [1]}", "y = {'a': [1]} == D",
		"y = [X] == [[3, 1, 2]]", "y = X == X", "y = not (X == [3, 1])", "y = not (D == {'a': [2]})", "y = not (X == 'x')",
	} {
		stmts, err := parser.ParseData([]byte(code+"\n"), "test.build")
		if err != nil {
			t.Fatalf("%s: %v", code, err)
		}
		s := parser.interpreter.scope.NewScope("test.build", core.ParseModeNormal)
		s.Set("X", pyList{pyInt(3), pyInt(1), pyInt(2)}.Freeze())
		s.Set("D", pyDict{"a": pyList{pyInt(1)}}.Freeze())
		s.interpretStatements(stmts)
		if !s.Lookup("y").IsTruthy() {
			t.Errorf("%-32s is False with X, D frozen", code)
		}
	}
}
