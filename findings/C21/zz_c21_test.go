package fs

import (
	"os"
	"path/filepath"
	"testing"
)

// A ** pattern matches the literal characters of a file name: $, ( and ) are not regular-expression syntax.
func TestDoubleStarPatternsTakeNamesLiterally(t *testing.T) {
	root := t.TempDir()
	for _, f := range []string{"src/Outer$Inner.class", "src/a(1).txt", "src/a1.txt"} {
		os.MkdirAll(filepath.Dir(filepath.Join(root, f)), 0o755)
		os.WriteFile(filepath.Join(root, f), []byte("x"), 0o644)
	}
	wd, _ := os.Getwd()
	defer os.Chdir(wd)
	os.Chdir(root)
	got := Glob(HostFS, []string{"BUILD"}, ".", []string{"**/Outer$Inner.class"}, nil, false)
	if len(got) != 1 {
		t.Errorf("glob(['**/Outer$Inner.class']) = %v, want the one file of that name", got)
	}
	got = Glob(HostFS, []string{"BUILD"}, ".", []string{"**/a(1).txt"}, nil, false)
	if len(got) != 1 || got[0] != "src/a(1).txt" {
		t.Errorf("glob(['**/a(1).txt']) = %v, want [src/a(1).txt]", got)
	}
}
