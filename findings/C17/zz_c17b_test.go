package asp

import (
	"testing"

	"github.com/thought-machine/please/src/core"
)

// Globals defined by a builtin build_defs file are frozen: a BUILD file cannot change them for everyone else.
func TestBuiltinFileGlobalsAreFrozen(t *testing.T) {
	state := core.NewDefaultBuildState()
	parser := NewParser(state)
	if err := parser.interpreter.LoadBuiltins("extra.build_defs", []byte("DEFAULT_FLAGS = ['-a', '-b']\n"), nil); err != nil {
		t.Fatal(err)
	}
	stmts, err := parser.ParseData([]byte("DEFAULT_FLAGS[0] = 'evil'\n"), "test.build")
	if err != nil {
		t.Fatal(err)
	}
	s := parser.interpreter.scope.NewScope("test.build", core.ParseModeNormal)
	defer func() {
		if r := recover(); r == nil {
			t.Errorf("a BUILD file changed a global of a builtin file; every later package now sees %v", parser.interpreter.scope.Lookup("DEFAULT_FLAGS"))
		}
	}()
	s.interpretStatements(stmts)
}
