package asp

import "testing"

// A list exported by one package (frozen) holds a nested list; a second package mutates the nested list
// through the frozen value. With a deep freeze the IndexAssign panics ("list is immutable").
func TestC17NestedListInFrozenListIsImmutable(t *testing.T) {
	inner := pyList{pyInt(1)}
	exported := pyList{inner}.Freeze()
	nested := exported.(pyFrozenList).pyList[0]
	defer func() {
		if r := recover(); r == nil {
			t.Fatalf("nested list reachable from a frozen list was mutated: inner is now %v", inner)
		}
	}()
	nested.(indexAssignable).IndexAssign(pyInt(0), pyInt(42))
}
