package asp

import (
	"fmt"
	"testing"
)

// sorted() and reversed() must return NEW lists (Python semantics) and leave their argument alone.
func TestSortedDoesNotMutateItsArgument(t *testing.T) {
	s := &scope{}
	x := pyList{pyInt(3), pyInt(1), pyInt(2)}
	y := sorted(s, []pyObject{x, None, False})
	if fmt.Sprint(x) != "[3 1 2]" {
		t.Errorf("sorted(x) changed x itself: x is now %v (result %v)", x, y)
	}
	x2 := pyList{pyInt(3), pyInt(1), pyInt(2)}
	y2 := reversed(s, []pyObject{x2})
	if fmt.Sprint(x2) != "[3 1 2]" {
		t.Errorf("reversed(x) changed x itself: x is now %v (result %v)", x2, y2)
	}
}

// A frozen list (subincluded / CONFIG value) is accepted by sorted() like an ordinary list.
func TestSortedAcceptsFrozenList(t *testing.T) {
	s := &scope{}
	fr := pyList{pyInt(2), pyInt(1)}.Freeze()
	defer func() {
		if r := recover(); r != nil {
			t.Errorf("sorted(frozen list) failed: %v", r)
		}
	}()
	sorted(s, []pyObject{fr, None, False})
}
