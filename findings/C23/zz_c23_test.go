package query

import (
	"bytes"
	"strings"
	"testing"

	"github.com/thought-machine/please/src/core"
)

func mkTarget(state *core.BuildState, label string, deps ...string) *core.BuildTarget {
	t := core.NewBuildTarget(core.ParseBuildLabel(label, ""))
	for _, d := range deps {
		t.AddDependency(core.ParseBuildLabel(d, ""))
	}
	state.Graph.AddTarget(t)
	return t
}

// a -> b -> c -> d -> e   and   a -> d.   e is two steps from a (a -> d -> e).
func TestDepsLevelLimitReportsEverythingWithinTheLimit(t *testing.T) {
	state := core.NewDefaultBuildState()
	mkTarget(state, "//p:e")
	mkTarget(state, "//p:d", "//p:e")
	mkTarget(state, "//p:c", "//p:d")
	mkTarget(state, "//p:b", "//p:c")
	a := mkTarget(state, "//p:a", "//p:b", "//p:d")
	var out bytes.Buffer
	Deps(&out, state, []core.BuildLabel{a.Label}, false, 3, false)
	if !strings.Contains(out.String(), "//p:e") {
		t.Errorf("plz query deps --level 3 //p:a does not report //p:e, which is 2 steps away (a -> d -> e):\n%s", out.String())
	}
}
