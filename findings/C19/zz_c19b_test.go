package asp

import (
	"bytes"
	"testing"
)

func TestC19Min(t *testing.T) {
	for _, src := range []string{"\"a\"f\"b\"", "x = \"a\" f\"b\"\n", "x = 'r'f\"b\"\n", "\"}f\"f\"pass\""} {
		_, err := newParser().parseAndHandleErrors(bytes.NewReader([]byte(src)))
		t.Logf("%q -> %v", src, err)
	}
}
