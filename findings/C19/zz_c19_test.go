package asp

import (
	"bytes"
	"math/rand"
	"strings"
	"testing"
)

func TestC19Fuzz(t *testing.T) {
	frags := []string{"x", "=", " ", "\n", "(", ")", "[", "]", "{", "}", ":", ",", "\"", "'", "\\", "f\"", "r'", "def ", "f(", "1", "-", "0o", "#", "\t",
		"    ", "if ", "for ", " in ", "else:", "\"\"\"", "lambda ", "\x00", "é", "%", ".", "+=", "==", "not ", "and ", "return ", "pass", "[x for x in y", "assert ", "|", "//", "*", "**", "a.b(", "None", ">=", "<", "!", "0", "9999999999999999999999", "\r"}
	rnd := rand.New(rand.NewSource(1))
	bad := 0
	for i := 0; i < 300000 && bad < 8; i++ {
		var b strings.Builder
		n := rnd.Intn(12) + 1
		for j := 0; j < n; j++ {
			b.WriteString(frags[rnd.Intn(len(frags))])
		}
		src := b.String()
		func() {
			defer func() {
				if r := recover(); r != nil {
					bad++
					t.Errorf("panic escaped for %q: %v", src, r)
				}
			}()
			_, err := newParser().parseAndHandleErrors(bytes.NewReader([]byte(src)))
			if err != nil {
				msg := err.Error()
				if strings.Contains(msg, "runtime error") || strings.Contains(msg, "index out of range") || strings.Contains(msg, "nil pointer") || strings.Contains(msg, "slice bounds") {
					bad++
					t.Errorf("internal error for %q: %s", src, strings.SplitN(msg, "\n", 2)[0])
				}
			}
		}()
	}
}
