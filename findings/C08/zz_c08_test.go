package build

import (
	"bytes"
	"testing"

	"github.com/thought-machine/please/src/core"
)

func TestRuleHashSeparatesListElements(t *testing.T) {
	state := core.NewDefaultBuildState()
	mk := func(labels []string, secrets []string) *core.BuildTarget {
		target := core.NewBuildTarget(core.ParseBuildLabel("//pkg:t", ""))
		target.Command = "echo hi"
		target.Labels = labels
		target.Secrets = secrets
		return target
	}
	a := ruleHash(state, mk([]string{"ab", "c"}, nil), false)
	b := ruleHash(state, mk([]string{"a", "bc"}, nil), false)
	if bytes.Equal(a, b) {
		t.Errorf("labels [ab c] and [a bc] give the same rule hash")
	}
	c := ruleHash(state, mk([]string{"x"}, nil), false)
	d := ruleHash(state, mk(nil, []string{"x"}), false)
	if bytes.Equal(c, d) {
		t.Errorf("label x and secret x give the same rule hash")
	}
}
