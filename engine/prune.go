package main

// Relevance pruning of queries (cone of influence). Dropping hypotheses is sound for proving: if the goal
// follows from fewer assertions it follows from all of them. A pruned query that does not come back
// `unsat` proves nothing and the full query is run instead.

import (
	"regexp"
	"strings"
)

var barSym = regexp.MustCompile(`\|[^|]+\|`)

// freeSymbols returns the declared constants / uninterpreted functions mentioned in an SMT text.
func (s *Script) freeSymbols(text string) []string {
	var out []string
	seen := map[string]bool{}
	for _, m := range barSym.FindAllString(text, -1) {
		if seen[m] {
			continue
		}
		seen[m] = true
		if _, isConst := s.consts[m]; isConst || s.declared["fun:"+m] {
			out = append(out, m)
		}
	}
	return out
}

// PrunedQuery keeps only the assertions connected to the goal through shared constants and functions.
// It returns the query and the number of assertions kept.
func (s *Script) PrunedQuery(nd, na int, extra []Term, getModelOf []string) (string, int) {
	want := map[string]bool{}
	var work []string
	add := func(sym string) {
		if !want[sym] {
			want[sym] = true
			work = append(work, sym)
		}
	}
	for _, e := range extra {
		for _, sym := range s.freeSymbols(e.S) {
			add(sym)
		}
	}
	if s.assertSyms == nil {
		s.assertSyms = map[int][]string{}
	}
	bySym := map[string][]int{}
	for i := 0; i < na; i++ {
		syms, ok := s.assertSyms[i]
		if !ok {
			syms = s.freeSymbols(s.asserts[i])
			s.assertSyms[i] = syms
		}
		for _, sym := range syms {
			bySym[sym] = append(bySym[sym], i)
		}
	}
	keep := map[int]bool{}
	for len(work) > 0 {
		sym := work[len(work)-1]
		work = work[:len(work)-1]
		for _, i := range bySym[sym] {
			if keep[i] {
				continue
			}
			keep[i] = true
			for _, s2 := range s.assertSyms[i] {
				add(s2)
			}
		}
	}
	// assertions without any declared symbol (pure axioms over interpreted theories) are kept
	var b strings.Builder
	b.WriteString(prelude)
	for _, d := range s.decls[:nd] {
		b.WriteString(d)
		b.WriteByte('\n')
	}
	n := 0
	for i := 0; i < na; i++ {
		if keep[i] || len(s.assertSyms[i]) == 0 {
			b.WriteString(s.asserts[i])
			b.WriteByte('\n')
			n++
		}
	}
	for _, e := range extra {
		b.WriteString("(assert " + e.S + ")\n")
	}
	b.WriteString("(check-sat)\n")
	if len(getModelOf) > 0 {
		b.WriteString("(get-value (" + strings.Join(getModelOf, " ") + "))\n")
	}
	return b.String(), n
}
