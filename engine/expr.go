package main

// Expression evaluation (code mode, over the type-checked AST).

import (
	"fmt"
	"go/ast"
	"go/constant"
	"go/token"
	"go/types"
	"strconv"
	"strings"
)

var nilTerm = Term{S: "nil", Sort: "nil"}

func isNilVal(v Val) bool { return v.T.Sort == "nil" }

func (e *Exec) freshVal(hint string, t types.Type) Val {
	s := e.sr.sortOf(t)
	v := Val{T: e.sc.Fresh(hint, s), GT: t}
	e.typeFactsGlobal(v)
	return v
}

// typeFactsGlobal asserts facts true of every well-typed Go value of this type (ranges, len >= 0).
func (e *Exec) typeFactsGlobal(v Val) {
	if v.GT == nil || e.sc.binders > 0 {
		return
	}
	switch u := v.GT.Underlying().(type) {
	case *types.Basic:
		if u.Info()&types.IsInteger != 0 && v.T.Sort == SInt {
			if lo, hi, ok := intRange(v.GT); ok {
				e.sc.Assert(And(Le(T(SInt, lo), v.T), Le(v.T, T(SInt, hi))))
			}
		}
	case *types.Slice:
		if isSlcSort(v.T.Sort) {
			e.sc.Assert(Ge(SlcLen(v.T), IntLit(0)))
			e.sc.Assert(Implies(Not(SlcNN(v.T)), Eq(SlcLen(v.T), IntLit(0))))
		}
	}
}

func (e *Exec) typeFacts(st *State, v Val) { e.typeFactsGlobal(v) }

func (e *Exec) lenFact(st *State, s Term) {
	if e.sc.binders > 0 {
		return
	}
	e.sc.Assert(Ge(SlcLen(s), IntLit(0)))
}

// zero returns the zero value of a Go type.
func (e *Exec) zero(t types.Type) Val {
	s := e.sr.sortOf(t)
	return Val{T: e.zeroOfSort(s, t), GT: t}
}

func (e *Exec) zeroOfSort(s string, t types.Type) Term {
	switch {
	case s == SInt:
		return IntLit(0)
	case s == SBool:
		return False
	case s == SString:
		return StrLit("")
	case s == "Real":
		return T("Real", "0.0")
	case isSlcSort(s):
		el := slcElem(s)
		var et types.Type
		if t != nil {
			if sl, ok := t.Underlying().(*types.Slice); ok {
				et = sl.Elem()
			}
		}
		return MkSlc(el, e.constArray(SInt, el, et), IntLit(0), False)
	case strings.HasPrefix(s, "(Array "):
		var et types.Type
		if t != nil {
			if a, ok := t.Underlying().(*types.Array); ok {
				et = a.Elem()
			}
		}
		return e.constArray(arrayKeySort(s), arrayValSort(s), et)
	}
	if si := e.sr.structInfoOf(s); si != nil {
		args := make([]Term, len(si.Fields))
		for i, f := range si.Fields {
			args[i] = e.zeroOfSort(f.Sort, f.GT)
		}
		return si.mk(args)
	}
	// opaque sort: a distinguished constant
	return e.sc.Const("zero:"+s, s)
}

func (e *Exec) constArray(k, v string, et types.Type) Term {
	z := e.zeroOfSort(v, et)
	return T(ArraySort(k, v), fmt.Sprintf("((as const %s) %s)", ArraySort(k, v), z.S))
}

func (e *Exec) constVal(cv constant.Value, t types.Type) (Val, bool) {
	switch cv.Kind() {
	case constant.Bool:
		return Val{T: BoolLit(constant.BoolVal(cv)), GT: t}, true
	case constant.String:
		return Val{T: StrLit(constant.StringVal(cv)), GT: t}, true
	case constant.Int:
		if t != nil {
			if b, ok := t.Underlying().(*types.Basic); ok && b.Info()&types.IsFloat != 0 {
				return Val{T: T("Real", cv.ExactString()+".0"), GT: t}, true
			}
		}
		return Val{T: IntLitS(cv.ExactString()), GT: t}, true
	case constant.Float:
		f, _ := constant.Float64Val(cv)
		s := strconv.FormatFloat(f, 'f', -1, 64)
		if !strings.Contains(s, ".") {
			s += ".0"
		}
		if strings.HasPrefix(s, "-") {
			s = "(- " + s[1:] + ")"
		}
		return Val{T: T("Real", s), GT: t}, true
	}
	return Val{}, false
}

func (e *Exec) ev(st *State, x ast.Expr) Val {
	if e.preEval != nil {
		if v, ok := e.preEval[x]; ok {
			return v // an argument of a deferred call, evaluated when the defer statement ran
		}
	}
	info := e.info()
	if tv, ok := info.Types[x]; ok && tv.Value != nil {
		if v, ok := e.constVal(tv.Value, tv.Type); ok {
			return v
		}
	}
	switch x := x.(type) {
	case *ast.ParenExpr:
		return e.ev(st, x.X)
	case *ast.BasicLit:
		e.fail(x.Pos(), "literal without constant value")
	case *ast.Ident:
		return e.ident(st, x)
	case *ast.UnaryExpr:
		return e.unary(st, x)
	case *ast.BinaryExpr:
		if x.Op == token.LAND || x.Op == token.LOR {
			a := e.ev(st, x.X)
			if containsCall(x.Y) {
				// the right operand runs only on one side: fork, evaluate it there, and merge, so that its
				// effects (heap havoc, ghost flags, tracked ghosts) are conditional like in the real code
				cond := a.T
				if x.Op == token.LOR {
					cond = Not(a.T)
				}
				run := e.fork(st, cond)
				skip := e.fork(st, Not(cond))
				b := e.ev(run, x.Y)
				e.setState(st, e.merge(run, skip))
				if x.Op == token.LAND {
					return Val{T: And(a.T, b.T), GT: types.Typ[types.Bool]}
				}
				return Val{T: Or(a.T, b.T), GT: types.Typ[types.Bool]}
			}
			saved := st.pc
			if x.Op == token.LAND {
				st.pc = e.newPC(st, a.T)
			} else {
				st.pc = e.newPC(st, Not(a.T))
			}
			b := e.ev(st, x.Y)
			st.pc = saved
			if x.Op == token.LAND {
				return Val{T: And(a.T, b.T), GT: types.Typ[types.Bool]}
			}
			return Val{T: Or(a.T, b.T), GT: types.Typ[types.Bool]}
		}
		a := e.ev(st, x.X)
		b := e.ev(st, x.Y)
		r := e.binop(st, x.Op, a, b, x.Pos())
		if t := info.TypeOf(x); t != nil {
			r.GT = t
		}
		switch x.Op {
		case token.ADD, token.SUB, token.MUL:
			r = e.wrapInt(st, r, x.Pos())
		}
		return r
	case *ast.CallExpr:
		return e.call(st, x)
	case *ast.SelectorExpr:
		return e.selector(st, x)
	case *ast.IndexExpr:
		return e.index(st, x)
	case *ast.SliceExpr:
		return e.sliceExpr(st, x)
	case *ast.CompositeLit:
		return e.composite(st, x)
	case *ast.FuncLit:
		f := e.top()
		f.litN++
		name := e.prog.litOrd[x]
		if name == "" {
			name = fmt.Sprintf("%s.lit?%d", f.name, f.litN)
		}
		return Val{T: IntLit(int64(1000 + f.litN)), GT: info.TypeOf(x), Fn: &Closure{Lit: x, Pkg: f.pkg, Name: name}}
	case *ast.StarExpr:
		p := e.ev(st, x.X)
		pt, ok := p.GT.Underlying().(*types.Pointer)
		if !ok {
			e.fail(x.Pos(), "deref of non-pointer")
		}
		return e.deref(st, p, pt, x.Pos())
	case *ast.TypeAssertExpr:
		v := e.ev(st, x.X)
		tt := info.TypeOf(x.Type)
		e.sideOblige(st, "type-assert", e.hasDynType(st, v, tt), x.Pos())
		return e.unbox(st, v, tt)
	case *ast.KeyValueExpr:
		e.fail(x.Pos(), "stray key-value expression")
	}
	e.fail(x.Pos(), "unsupported expression %T", x)
	return Val{}
}

func (e *Exec) deref(st *State, p Val, pt *types.Pointer, pos token.Pos) Val {
	hn, hs := e.ptrHeap(pt.Elem())
	e.sideOblige(st, "nil-deref", Not(Eq(p.T, IntLit(0))), pos)
	v := Val{T: Select(e.heapRead(st, hn, hs), p.T), GT: pt.Elem()}
	return v
}

func (e *Exec) ident(st *State, x *ast.Ident) Val {
	info := e.info()
	switch x.Name {
	case "nil":
		if _, ok := info.Uses[x].(*types.Nil); ok {
			return Val{T: nilTerm, GT: types.Typ[types.UntypedNil]}
		}
	case "true", "false":
		if c, ok := info.Uses[x].(*types.Const); ok && c.Pkg() == nil {
			return Val{T: BoolLit(x.Name == "true"), GT: types.Typ[types.Bool]}
		}
	}
	obj := info.Uses[x]
	if obj == nil {
		obj = info.Defs[x]
	}
	if obj == nil {
		e.fail(x.Pos(), "unresolved identifier %s", x.Name)
	}
	return e.objVal(st, obj, x.Pos())
}

func (e *Exec) objVal(st *State, obj types.Object, pos token.Pos) Val {
	switch o := obj.(type) {
	case *types.Const:
		if v, ok := e.constVal(o.Val(), o.Type()); ok {
			return v
		}
	case *types.Var:
		if v, ok := st.vars[o]; ok {
			return v
		}
		if o.Pkg() != nil && o.Parent() == o.Pkg().Scope() {
			// package-level variable: a global cell
			k := "G:" + o.Pkg().Path() + "." + o.Name()
			s := e.sr.sortOf(o.Type())
			// well-known sentinel errors of the standard library (io.EOF, filepath.SkipDir, os.ErrNotExist, ...) are
			// never reassigned: one non-nil constant each, whatever has been havocked since
			if !strings.Contains(o.Pkg().Path(), ".") && s == SInt && types.Identical(o.Type(), errorType()) &&
				(strings.HasPrefix(o.Name(), "Err") || o.Name() == "EOF" || strings.HasPrefix(o.Name(), "Skip")) {
				h := e.initialHeap(k, s)
				e.sc.Assert(Not(Eq(h, IntLit(0))))
				v := Val{T: h, GT: o.Type()}
				e.typeFactsGlobal(v)
				return v
			}
			if h, ok := st.heaps[k]; ok {
				return Val{T: h, GT: o.Type()}
			}
			var h Term
			if _, bumped := st.ghosts["heapver"]; bumped {
				h = e.sc.Fresh("g_"+o.Name(), s)
			} else {
				h = e.initialHeap(k, s)
				// well-known sentinel errors of the standard library are non-nil
				if !strings.Contains(o.Pkg().Path(), ".") && s == SInt && types.Identical(o.Type(), errorType()) &&
					(strings.HasPrefix(o.Name(), "Err") || o.Name() == "EOF" || strings.HasPrefix(o.Name(), "Skip")) {
					e.sc.Assert(Not(Eq(h, IntLit(0))))
				}
			}
			st.heaps[k] = h
			v := Val{T: h, GT: o.Type()}
			e.typeFactsGlobal(v)
			return v
		}
		// a captured variable of an enclosing function that we have no binding for
		if v, ok := e.capturedVal(o); ok {
			return v
		}
		e.fail(pos, "variable %s has no binding (captured from an unverified scope?)", o.Name())
	case *types.Func:
		return Val{T: IntLit(1), GT: o.Type(), Fn: &Closure{Obj: o, Name: o.FullName()}}
	case *types.Nil:
		return Val{T: nilTerm, GT: types.Typ[types.UntypedNil]}
	}
	e.fail(pos, "unsupported object %T %s", obj, obj.Name())
	return Val{}
}

func (e *Exec) unary(st *State, x *ast.UnaryExpr) Val {
	info := e.info()
	switch x.Op {
	case token.NOT:
		v := e.ev(st, x.X)
		return Val{T: Not(v.T), GT: v.GT}
	case token.SUB:
		v := e.ev(st, x.X)
		return Val{T: App(v.T.Sort, "-", v.T), GT: v.GT}
	case token.ADD:
		return e.ev(st, x.X)
	case token.AND:
		// &T{...} or &x
		if cl, ok := ast.Unparen(x.X).(*ast.CompositeLit); ok {
			v := e.composite(st, cl)
			return e.alloc(st, v, info.TypeOf(x))
		}
		// &x / &x.f / &s[i]: a fresh cell holding the current value. Exact when the pointer is only read
		// (the common "return &loopVar" / "pass &local to a reader" idioms); a later write through the
		// pointer would not be seen through the variable, which is recorded as a modelling note.
		v := e.ev(st, x.X)
		r := e.alloc(st, v, info.TypeOf(x))
		if e.borrowArgs[x] && e.assignable(x.X) {
			// argument of a call: the cell is copied back into the variable when the call returns
			e.borrows = append(e.borrows, borrow{lv: x.X, ref: r.T, elem: v.GT})
			return r
		}
		e.note("address-of a variable outside a call argument modelled as a fresh cell holding its current value at " + e.posStr(x.Pos()))
		return r
	case token.ARROW:
		t := info.TypeOf(x)
		e.note("channel receive modelled as an arbitrary value at " + e.posStr(x.Pos()))
		e.markReceived(st, e.ev(st, x.X))
		return e.freshVal("recv", t)
	case token.XOR:
		v := e.ev(st, x.X)
		return Val{T: App(SInt, e.sc.Fun("bitnot", []string{SInt}, SInt), v.T), GT: v.GT}
	}
	e.fail(x.Pos(), "unsupported unary operator %s", x.Op)
	return Val{}
}

// alloc allocates a fresh reference holding v.
func (e *Exec) alloc(st *State, v Val, ptrType types.Type) Val {
	pt := ptrType.Underlying().(*types.Pointer)
	hn, hs := e.ptrHeap(pt.Elem())
	r := e.sc.Fresh("new", SInt)
	// fresh: distinct from nil and from every reference that existed before
	cnt, ok := st.ghosts["alloc"]
	if !ok {
		cnt = Val{T: e.sc.Const("alloc0", SInt)}
		e.sc.Assert(Gt(cnt.T, IntLit(0)))
	}
	e.sc.Assert(Implies(st.pc, Eq(r, cnt.T)))
	st.ghosts["alloc"] = Val{T: Add(cnt.T, IntLit(1))}
	st.heaps[hn] = Store(e.heapRead(st, hn, hs), r, v.T)
	return Val{T: r, GT: ptrType}
}

// refFact: every reference held at function entry is below the allocation counter.
func (e *Exec) refIsOld(r Term) {
	cnt := e.sc.Const("alloc0", SInt)
	e.sc.Assert(Gt(cnt, IntLit(0)))
	e.sc.Assert(And(Ge(r, IntLit(0)), Lt(r, cnt)))
}

func (e *Exec) selector(st *State, x *ast.SelectorExpr) Val {
	info := e.info()
	if sel, ok := info.Selections[x]; ok {
		switch sel.Kind() {
		case types.FieldVal:
			base := e.ev(st, x.X)
			return e.fieldPath(st, base, sel.Index(), x.Pos())
		case types.MethodVal:
			// method value used as a function value
			recv := e.ev(st, x.X)
			fn := sel.Obj().(*types.Func)
			_ = recv
			return Val{T: IntLit(1), GT: info.TypeOf(x), Fn: &Closure{Obj: fn, Name: fn.FullName()}}
		}
		if sel.Kind() == types.MethodExpr {
			// T.Method used as a function value
			fn := sel.Obj().(*types.Func)
			mv := e.sc.Const("methodexpr:"+fn.FullName(), SInt)
			e.sc.Assert(Not(Eq(mv, IntLit(0))))
			return Val{T: mv, GT: info.TypeOf(x)}
		}
		e.fail(x.Pos(), "unsupported selection kind")
	}
	// qualified identifier pkg.Name
	obj := info.Uses[x.Sel]
	if obj == nil {
		e.fail(x.Pos(), "unresolved selector %s", x.Sel.Name)
	}
	return e.objVal(st, obj, x.Pos())
}

func (e *Exec) fieldPath(st *State, base Val, path []int, pos token.Pos) Val {
	cur := base
	for _, idx := range path {
		viaHeap := ""
		if pt, ok := cur.GT.Underlying().(*types.Pointer); ok {
			cur = e.deref(st, cur, pt, pos)
			viaHeap = "*" + typeKey(pt.Elem())
		}
		stt, ok := cur.GT.Underlying().(*types.Struct)
		if !ok {
			e.fail(pos, "field selection on non-struct %s", cur.GT)
		}
		e.sr.sortOf(cur.GT)
		si := e.sr.structInfoOf(cur.T.Sort)
		f := stt.Field(idx)
		if si == nil {
			// opaque struct: the field is an uninterpreted function of the struct value
			fs := e.sr.sortOf(f.Type())
			fn := e.sc.Fun("field:"+typeKey(cur.GT)+"."+f.Name(), []string{cur.T.Sort}, fs)
			cur = Val{T: App(fs, fn, cur.T), GT: f.Type()}
		} else {
			cur = Val{T: si.get(cur.T, idx), GT: f.Type(), Orig: cur.Orig}
			// a slice stored in a heap cell shares its backing array with that cell: in-place writes
			// through the value are writes to caller-visible state (checked by frame obligations)
			if viaHeap != "" && isSlcSort(cur.T.Sort) && e.inContract == 0 {
				cur.Orig = unionOrig(cur.Orig, map[string]bool{viaHeap + "." + f.Name(): true})
			}
			// a reference stored in the heap was allocated before it was stored: it is below the
			// allocation counter (so later allocations differ from it)
			if viaHeap != "" && e.sc.binders == 0 && cur.T.Sort == SInt && st.specHeaps == nil {
				switch f.Type().Underlying().(type) {
				case *types.Pointer, *types.Map, *types.Chan:
					cnt, ok := st.ghosts["alloc"]
					if !ok {
						cnt = Val{T: e.sc.Const("alloc0", SInt)}
						e.sc.Assert(Gt(cnt.T, IntLit(0)))
					}
					e.assume(st, And(Ge(cur.T, IntLit(0)), Lt(cur.T, cnt.T)))
				}
			}
		}
		e.typeFactsGlobal(cur)
	}
	return cur
}

// fieldByName is used by contract expressions.
func (e *Exec) fieldByName(st *State, base Val, name string, pos token.Pos) (Val, bool) {
	if base.GT == nil {
		return Val{}, false
	}
	obj, path, _ := types.LookupFieldOrMethod(base.GT, true, nil, name)
	if obj == nil {
		// unexported field from another package: retry with the type's own package
		if n := namedOf(base.GT); n != nil && n.Obj().Pkg() != nil {
			obj, path, _ = types.LookupFieldOrMethod(base.GT, true, n.Obj().Pkg(), name)
		}
	}
	if v, ok := obj.(*types.Var); ok && v.IsField() {
		return e.fieldPath(st, base, path, pos), true
	}
	return Val{}, false
}

func namedOf(t types.Type) *types.Named {
	t = types.Unalias(t)
	if p, ok := t.(*types.Pointer); ok {
		t = types.Unalias(p.Elem())
	}
	n, _ := t.(*types.Named)
	return n
}

func (e *Exec) index(st *State, x *ast.IndexExpr) Val {
	info := e.info()
	// generic function instantiation f[T]
	if tv, ok := info.Types[x.X]; ok {
		if _, isSig := tv.Type.Underlying().(*types.Signature); isSig {
			return e.ev(st, x.X)
		}
	}
	base := e.ev(st, x.X)
	idx := e.ev(st, x.Index)
	return e.indexVal(st, base, idx, x.Pos(), true)
}

func (e *Exec) indexVal(st *State, base, idx Val, pos token.Pos, check bool) Val {
	switch bt := base.GT.Underlying().(type) {
	case *types.Slice:
		if check {
			e.sideOblige(st, "index", And(Le(IntLit(0), idx.T), Lt(idx.T, SlcLen(base.T))), pos)
		}
		v := Val{T: Select(SlcArr(base.T), idx.T), GT: bt.Elem()}
		// an element that can itself hold a slice (a slice, or an interface boxing one) leads to a backing array
		// reachable from the same parameter: in-place writes through it are writes to caller-visible state
		if len(base.Orig) > 0 {
			switch bt.Elem().Underlying().(type) {
			case *types.Slice, *types.Interface:
				v.Orig = map[string]bool{}
				for p := range base.Orig {
					v.Orig[strings.TrimSuffix(p, "[*]")+"[*]"] = true
				}
			}
		}
		e.typeFactsGlobal(v)
		return v
	case *types.Array:
		if check {
			e.sideOblige(st, "index", And(Le(IntLit(0), idx.T), Lt(idx.T, IntLit(bt.Len()))), pos)
		}
		v := Val{T: Select(base.T, idx.T), GT: bt.Elem()}
		e.typeFactsGlobal(v)
		return v
	case *types.Basic:
		if bt.Info()&types.IsString != 0 {
			if check {
				e.sideOblige(st, "index", And(Le(IntLit(0), idx.T), Lt(idx.T, App(SInt, "str.len", base.T))), pos)
			}
			return Val{T: App(SInt, "str.to_code", App(SString, "str.at", base.T, idx.T)), GT: types.Typ[types.Byte]}
		}
	case *types.Map:
		v, _ := e.mapLookup(st, base, bt, idx)
		return v
	case *types.Pointer:
		if at, ok := bt.Elem().Underlying().(*types.Array); ok {
			arr := e.deref(st, base, bt, pos)
			_ = at
			return e.indexVal(st, arr, idx, pos, check)
		}
	}
	e.fail(pos, "unsupported index on %s", base.GT)
	return Val{}
}

func (e *Exec) sliceExpr(st *State, x *ast.SliceExpr) Val {
	base := e.ev(st, x.X)
	var lo, hi *Val
	if x.Low != nil {
		v := e.ev(st, x.Low)
		lo = &v
	}
	if x.High != nil {
		v := e.ev(st, x.High)
		hi = &v
	}
	if x.Max != nil {
		e.ev(st, x.Max)
		e.note("3-index slice capacity ignored at " + e.posStr(x.Pos()))
	}
	return e.sliceVal(st, base, lo, hi, x.Pos(), true)
}

func (e *Exec) sliceVal(st *State, base Val, lo, hi *Val, pos token.Pos, check bool) Val {
	loT := IntLit(0)
	if lo != nil {
		loT = lo.T
	}
	switch bt := base.GT.Underlying().(type) {
	case *types.Basic:
		if bt.Info()&types.IsString != 0 {
			n := App(SInt, "str.len", base.T)
			hiT := n
			if hi != nil {
				hiT = hi.T
			}
			if check {
				e.sideOblige(st, "slice", And(Le(IntLit(0), loT), Le(loT, hiT), Le(hiT, n)), pos)
			}
			return Val{T: App(SString, "str.substr", base.T, loT, Sub(hiT, loT)), GT: base.GT}
		}
	case *types.Slice:
		n := SlcLen(base.T)
		hiT := n
		if hi != nil {
			hiT = hi.T
		}
		if check {
			// the upper bound is the capacity, which is not modelled: len is the safe bound
			e.sideOblige(st, "slice", And(Le(IntLit(0), loT), Le(loT, hiT), Le(hiT, n)), pos)
		}
		el := slcElem(base.T.Sort)
		if loT.S == "0" {
			return Val{T: MkSlc(el, SlcArr(base.T), hiT, SlcNN(base.T)), GT: base.GT, Orig: base.Orig}
		}
		arr := e.sc.Fresh("sub", ArraySort(SInt, el))
		e.sc.Assert(T(SBool, fmt.Sprintf("(forall ((i Int)) (! (= (select %s i) (select %s (+ i %s))) :pattern ((select %s i))))", arr.S, SlcArr(base.T).S, loT.S, arr.S)))
		return Val{T: MkSlc(el, arr, Sub(hiT, loT), SlcNN(base.T)), GT: base.GT, Orig: base.Orig}
	case *types.Array:
		hiT := IntLit(bt.Len())
		if hi != nil {
			hiT = hi.T
		}
		el := arrayValSort(base.T.Sort)
		st2 := types.NewSlice(bt.Elem())
		if loT.S == "0" {
			return Val{T: MkSlc(el, base.T, hiT, True), GT: st2}
		}
		arr := e.sc.Fresh("sub", ArraySort(SInt, el))
		e.sc.Assert(T(SBool, fmt.Sprintf("(forall ((i Int)) (! (= (select %s i) (select %s (+ i %s))) :pattern ((select %s i))))", arr.S, base.T.S, loT.S, arr.S)))
		return Val{T: MkSlc(el, arr, Sub(hiT, loT), True), GT: st2}
	}
	e.fail(pos, "unsupported slice expression on %s", base.GT)
	return Val{}
}

func (e *Exec) composite(st *State, x *ast.CompositeLit) Val {
	info := e.info()
	t := info.TypeOf(x)
	if pt, ok := t.Underlying().(*types.Pointer); ok && x.Type == nil {
		// elided &T{...} element of a composite literal
		inner := e.compositeOf(st, x, pt.Elem())
		return e.alloc(st, inner, t)
	}
	return e.compositeOf(st, x, t)
}

func (e *Exec) compositeOf(st *State, x *ast.CompositeLit, t types.Type) Val {
	switch u := t.Underlying().(type) {
	case *types.Struct:
		s := e.sr.sortOf(t)
		si := e.sr.structInfoOf(s)
		if si == nil {
			for _, el := range x.Elts {
				if kv, ok := el.(*ast.KeyValueExpr); ok {
					e.ev(st, kv.Value)
				} else {
					e.ev(st, el)
				}
			}
			return e.freshVal("lit", t)
		}
		args := make([]Term, len(si.Fields))
		for i, f := range si.Fields {
			args[i] = e.zeroOfSort(f.Sort, f.GT)
		}
		for i, el := range x.Elts {
			if kv, ok := el.(*ast.KeyValueExpr); ok {
				name := kv.Key.(*ast.Ident).Name
				idx, f := si.field(name)
				if idx < 0 {
					e.fail(x.Pos(), "unknown field %s", name)
				}
				v := e.convertTo(st, e.evElem(st, kv.Value, f.GT), f.GT)
				args[idx] = v.T
			} else {
				v := e.convertTo(st, e.evElem(st, el, si.Fields[i].GT), si.Fields[i].GT)
				args[i] = v.T
			}
		}
		return Val{T: si.mk(args), GT: t}
	case *types.Slice:
		el := e.sr.sortOf(u.Elem())
		arr := e.constArray(SInt, el, u.Elem())
		n := int64(0)
		for _, elx := range x.Elts {
			if kv, ok := elx.(*ast.KeyValueExpr); ok {
				_ = kv
				e.fail(x.Pos(), "keyed slice literal")
			}
			v := e.convertTo(st, e.evElem(st, elx, u.Elem()), u.Elem())
			arr = Store(arr, IntLit(n), v.T)
			n++
		}
		return Val{T: MkSlc(el, arr, IntLit(n), True), GT: t}
	case *types.Array:
		el := e.sr.sortOf(u.Elem())
		arr := e.constArray(SInt, el, u.Elem())
		n := int64(0)
		for _, elx := range x.Elts {
			if _, ok := elx.(*ast.KeyValueExpr); ok {
				e.fail(x.Pos(), "keyed array literal")
			}
			v := e.convertTo(st, e.evElem(st, elx, u.Elem()), u.Elem())
			arr = Store(arr, IntLit(n), v.T)
			n++
		}
		return Val{T: arr, GT: t}
	case *types.Map:
		m := e.newMap(st, u, t)
		for _, elx := range x.Elts {
			kv := elx.(*ast.KeyValueExpr)
			k := e.convertTo(st, e.evElem(st, kv.Key, u.Key()), u.Key())
			v := e.convertTo(st, e.evElem(st, kv.Value, u.Elem()), u.Elem())
			e.mapStore(st, m, u, k, v)
		}
		return m
	}
	e.fail(x.Pos(), "unsupported composite literal of type %s", t)
	return Val{}
}

// evElem evaluates a composite-literal element, which may omit its type.
func (e *Exec) evElem(st *State, x ast.Expr, t types.Type) Val {
	if cl, ok := x.(*ast.CompositeLit); ok && cl.Type == nil {
		// elided type: the type checker records it
		return e.composite(st, cl)
	}
	return e.ev(st, x)
}

// -----------------------------------------------------------------------------------------
// maps

func (e *Exec) mapValue(st *State, m Val, mt *types.Map) Term {
	hn, hs := e.mapHeap(mt)
	if isNilVal(m) || m.T.S == "0" {
		return e.emptyMapTerm(mt)
	}
	// a nil map reads as the empty map
	return Ite(Eq(m.T, IntLit(0)), e.emptyMapTerm(mt), Select(e.heapRead(st, hn, hs), m.T))
}

func (e *Exec) emptyMapTerm(mt *types.Map) Term {
	ks, vs := e.sr.sortOf(mt.Key()), e.sr.sortOf(mt.Elem())
	return MkMap(ks, vs, T(ArraySort(ks, SBool), fmt.Sprintf("((as const %s) false)", ArraySort(ks, SBool))), e.constArray(ks, vs, mt.Elem()))
}

func (e *Exec) newMap(st *State, mt *types.Map, t types.Type) Val {
	hn, hs := e.mapHeap(mt)
	ks, vs := e.sr.sortOf(mt.Key()), e.sr.sortOf(mt.Elem())
	r := e.sc.Fresh("map", SInt)
	cnt, ok := st.ghosts["alloc"]
	if !ok {
		cnt = Val{T: e.sc.Const("alloc0", SInt)}
		e.sc.Assert(Gt(cnt.T, IntLit(0)))
	}
	e.sc.Assert(Implies(st.pc, Eq(r, cnt.T)))
	st.ghosts["alloc"] = Val{T: Add(cnt.T, IntLit(1))}
	empty := MkMap(ks, vs, T(ArraySort(ks, SBool), fmt.Sprintf("((as const %s) false)", ArraySort(ks, SBool))), e.constArray(ks, vs, mt.Elem()))
	st.heaps[hn] = Store(e.heapRead(st, hn, hs), r, empty)
	return Val{T: r, GT: t}
}

func (e *Exec) mapLookup(st *State, m Val, mt *types.Map, k Val) (Val, Term) {
	mv := e.mapValue(st, m, mt)
	k = e.convertTo(st, k, mt.Key())
	present := Select(MapDom(mv), k.T)
	zero := e.zero(mt.Elem())
	val := Ite(present, Select(MapVal(mv), k.T), zero.T)
	v := Val{T: val, GT: mt.Elem()}
	e.typeFactsGlobal(Val{T: Select(MapVal(mv), k.T), GT: mt.Elem()})
	return v, present
}

func (e *Exec) mapStore(st *State, m Val, mt *types.Map, k, v Val) {
	hn, hs := e.mapHeap(mt)
	ks, vs := e.sr.sortOf(mt.Key()), e.sr.sortOf(mt.Elem())
	k = e.convertTo(st, k, mt.Key())
	e.sideOblige(st, "nil-map-write", Not(Eq(m.T, IntLit(0))), token.NoPos)
	h := e.heapRead(st, hn, hs)
	cur := Select(h, m.T)
	nm := MkMap(ks, vs, Store(MapDom(cur), k.T, True), Store(MapVal(cur), k.T, v.T))
	st.heaps[hn] = Store(h, m.T, nm)
}

func (e *Exec) mapDelete(st *State, m Val, mt *types.Map, k Val) {
	hn, hs := e.mapHeap(mt)
	ks, vs := e.sr.sortOf(mt.Key()), e.sr.sortOf(mt.Elem())
	h := e.heapRead(st, hn, hs)
	cur := Select(h, m.T)
	nm := MkMap(ks, vs, Store(MapDom(cur), k.T, False), MapVal(cur))
	st.heaps[hn] = Store(h, m.T, nm)
}

// mapIterSeq introduces the ghost iteration sequence of a map: duplicate-free and covering exactly the
// domain; its order is otherwise unconstrained (so results are proved for every iteration order).
func (e *Exec) mapIterSeq(st *State, m Val, mt *types.Map) Val {
	ks := e.sr.sortOf(mt.Key())
	mv0 := e.mapValue(st, m, mt)
	// name the map value: the iteration facts use it in patterns, where `ite` is not allowed
	mv := e.sc.Fresh("itermap", mv0.Sort)
	e.sc.Assert(Implies(st.pc, Eq(mv, mv0)))
	seq := e.sc.Fresh("iter", SlcSort(ks))
	e.sc.Assert(Ge(SlcLen(seq), IntLit(0)))
	arr := SlcArr(seq)
	dom := MapDom(mv)
	pos := e.sc.Fun(fmt.Sprintf("iterpos!%d", e.sc.counter), []string{ks}, SInt)
	// every listed key is in the domain
	e.assume(st, T(SBool, fmt.Sprintf("(forall ((j Int)) (! (=> (and (<= 0 j) (< j %s)) (select %s (select %s j))) :pattern ((select %s j))))", SlcLen(seq).S, dom.S, arr.S, arr.S)))
	// every key of the domain is listed, at position pos(k); pos is injective on listed keys (no duplicates)
	e.assume(st, T(SBool, fmt.Sprintf("(forall ((k %s)) (! (=> (select %s k) (and (<= 0 (%s k)) (< (%s k) %s) (= (select %s (%s k)) k))) :pattern ((select %s k))))", ks, dom.S, pos, pos, SlcLen(seq).S, arr.S, pos, dom.S)))
	e.assume(st, T(SBool, fmt.Sprintf("(forall ((j Int)) (! (=> (and (<= 0 j) (< j %s)) (= (%s (select %s j)) j)) :pattern ((select %s j))))", SlcLen(seq).S, pos, arr.S, arr.S)))
	e.lastIterPos, e.lastIterDom = pos, dom
	return Val{T: seq, GT: types.NewSlice(mt.Key())}
}

// -----------------------------------------------------------------------------------------
// interfaces

func (e *Exec) boxFuncs(t types.Type) (box, unbox string, tag int) {
	s := e.sr.sortOf(t)
	k := typeKey(t)
	box = e.sc.Fun("box:"+k, []string{s}, SInt)
	unbox = e.sc.Fun("unbox:"+k, []string{SInt}, s)
	return box, unbox, e.sr.typeTag(t)
}

func (e *Exec) dynTypeFn() string { return e.sc.Fun("dyntype", []string{SInt}, SInt) }

func (e *Exec) box(st *State, v Val, iface types.Type) Val {
	if v.GT == nil {
		return v
	}
	if _, ok := v.GT.Underlying().(*types.Interface); ok {
		return Val{T: v.T, GT: iface, Orig: v.Orig}
	}
	box, unbox, tag := e.boxFuncs(v.GT)
	e.syncImplFacts()
	b := App(SInt, box, v.T)
	if e.sc.binders == 0 { // under a binder the value mentions bound variables: no global facts about it
		e.sc.Assert(Eq(T(v.T.Sort, fmt.Sprintf("(%s %s)", unbox, b.S)), v.T))
		e.sc.Assert(Eq(App(SInt, e.dynTypeFn(), b), IntLit(int64(tag))))
		e.sc.Assert(Not(Eq(b, IntLit(0))))
	}
	return Val{T: b, GT: iface, Orig: v.Orig}
}

func (e *Exec) hasDynType(st *State, v Val, t types.Type) Term {
	if _, ok := t.Underlying().(*types.Interface); ok {
		// interface-to-interface assertion: depends on the method set of the dynamic type
		if types.Identical(v.GT, t) {
			return Not(Eq(v.T, IntLit(0)))
		}
		// a function of the dynamic type; its value is stated for every concrete type seen (method sets are static)
		key := typeKey(t)
		if e.ifaceAsked == nil {
			e.ifaceAsked = map[string]types.Type{}
		}
		e.ifaceAsked[key] = t
		fn := e.sc.Fun("implements:"+key, []string{SInt}, SBool)
		e.syncImplFacts()
		return And(Not(Eq(v.T, IntLit(0))), App(SBool, fn, App(SInt, e.dynTypeFn(), v.T)))
	}
	tag := e.sr.typeTag(t)
	return And(Not(Eq(v.T, IntLit(0))), Eq(App(SInt, e.dynTypeFn(), v.T), IntLit(int64(tag))))
}

func (e *Exec) unbox(st *State, v Val, t types.Type) Val {
	if _, ok := t.Underlying().(*types.Interface); ok {
		return Val{T: v.T, GT: t, Orig: v.Orig}
	}
	_, unbox, _ := e.boxFuncs(t)
	s := e.sr.sortOf(t)
	r := Val{T: T(s, fmt.Sprintf("(%s %s)", unbox, v.T.S)), GT: t}
	if isSlcSort(s) {
		r.Orig = v.Orig // a slice taken out of an interface shares its backing array with the boxed value
	}
	e.typeFactsGlobal(r)
	return r
}

// convertTo adapts a value to a target type (assignment conversion: boxing, nil, untyped constants).
func (e *Exec) convertTo(st *State, v Val, t types.Type) Val {
	if t == nil {
		return v
	}
	if len(v.Tuple) > 0 {
		return v
	}
	if isNilVal(v) {
		z := e.zero(t)
		return z
	}
	if _, ok := t.Underlying().(*types.Interface); ok {
		if v.GT != nil {
			if _, isI := v.GT.Underlying().(*types.Interface); !isI {
				if b, ok := v.GT.(*types.Basic); ok && b.Info()&types.IsUntyped != 0 {
					v.GT = types.Default(v.GT)
				}
				return e.box(st, v, t)
			}
		}
		return Val{T: v.T, GT: t, Fn: v.Fn, Orig: v.Orig}
	}
	want := e.sr.sortOf(t)
	if v.T.Sort != want {
		if v.T.Sort == SInt && want == "Real" {
			return Val{T: App("Real", "to_real", v.T), GT: t}
		}
		if v.Fn != nil {
			return Val{T: v.T, GT: t, Fn: v.Fn}
		}
		return Val{T: v.T, GT: t, Orig: v.Orig}
	}
	if v.GT == nil || isUntyped(v.GT) {
		v.GT = t
	}
	return v
}

func isUntyped(t types.Type) bool {
	b, ok := t.(*types.Basic)
	return ok && b.Info()&types.IsUntyped != 0
}

// wrapInt: Go integers wrap; the model is mathematical. With opt overflow=on a side obligation
// requires the result to be in range (so unsigned underflow is caught).
func (e *Exec) wrapInt(st *State, v Val, pos token.Pos) Val {
	if v.GT == nil || v.T.Sort != SInt || e.inContract > 0 {
		return v
	}
	f := e.frames[0]
	if f.contract == nil || f.contract.Opts["overflow"] != "on" {
		return v
	}
	if lo, hi, ok := intRange(v.GT); ok {
		e.sideOblige(st, "overflow", And(Le(T(SInt, lo), v.T), Le(v.T, T(SInt, hi))), pos)
	}
	return v
}

// -----------------------------------------------------------------------------------------
// binary operators

func (e *Exec) binop(st *State, op token.Token, a, b Val, pos token.Pos) Val {
	boolT := types.Typ[types.Bool]
	// nil comparisons
	if isNilVal(a) || isNilVal(b) {
		if isNilVal(a) {
			a, b = b, a
		}
		var isNil Term
		switch {
		case isNilVal(a):
			isNil = True
		case isSlcSort(a.T.Sort):
			isNil = Not(SlcNN(a.T))
		case a.T.Sort == SInt:
			isNil = Eq(a.T, IntLit(0))
		default:
			e.fail(pos, "nil comparison on sort %s", a.T.Sort)
		}
		if op == token.EQL {
			return Val{T: isNil, GT: boolT}
		}
		return Val{T: Not(isNil), GT: boolT}
	}
	// interface vs concrete comparison: box the concrete side
	if a.GT != nil && b.GT != nil && (op == token.EQL || op == token.NEQ) {
		_, ai := a.GT.Underlying().(*types.Interface)
		_, bi := b.GT.Underlying().(*types.Interface)
		if ai && !bi {
			b = e.box(st, b, a.GT)
		} else if bi && !ai {
			a = e.box(st, a, b.GT)
		}
		if ai || bi {
			// comparing two interface values panics when both hold the same uncomparable dynamic type (slice, map, func)
			dt := e.dynTypeFn()
			cmp := e.sc.Fun("comparable:dyntype", []string{SInt}, SBool)
			e.askedComparable = true
			e.syncImplFacts()
			bad := And(Not(Eq(a.T, IntLit(0))), Not(Eq(b.T, IntLit(0))), Eq(App(SInt, dt, a.T), App(SInt, dt, b.T)), Not(App(SBool, cmp, App(SInt, dt, a.T))))
			e.sideOblige(st, "iface-compare", Not(bad), pos)
		}
	}
	if a.T.Sort == SInt && b.T.Sort == "Real" {
		a = Val{T: App("Real", "to_real", a.T), GT: b.GT}
	} else if a.T.Sort == "Real" && b.T.Sort == SInt {
		b = Val{T: App("Real", "to_real", b.T), GT: a.GT}
	}
	gt := a.GT
	if gt == nil || isUntyped(gt) {
		gt = b.GT
	}
	switch op {
	case token.EQL:
		return Val{T: Eq(a.T, b.T), GT: boolT}
	case token.NEQ:
		return Val{T: Not(Eq(a.T, b.T)), GT: boolT}
	case token.LSS, token.LEQ, token.GTR, token.GEQ:
		if a.T.Sort == SString {
			switch op {
			case token.LSS:
				return Val{T: App(SBool, "str.<", a.T, b.T), GT: boolT}
			case token.LEQ:
				return Val{T: App(SBool, "str.<=", a.T, b.T), GT: boolT}
			case token.GTR:
				return Val{T: App(SBool, "str.<", b.T, a.T), GT: boolT}
			default:
				return Val{T: App(SBool, "str.<=", b.T, a.T), GT: boolT}
			}
		}
		ops := map[token.Token]string{token.LSS: "<", token.LEQ: "<=", token.GTR: ">", token.GEQ: ">="}
		return Val{T: App(SBool, ops[op], a.T, b.T), GT: boolT}
	case token.ADD:
		if a.T.Sort == SString {
			return Val{T: App(SString, "str.++", a.T, b.T), GT: gt}
		}
		return Val{T: App(a.T.Sort, "+", a.T, b.T), GT: gt}
	case token.SUB:
		return Val{T: App(a.T.Sort, "-", a.T, b.T), GT: gt}
	case token.MUL:
		return Val{T: App(a.T.Sort, "*", a.T, b.T), GT: gt}
	case token.QUO:
		if a.T.Sort == "Real" {
			return Val{T: App("Real", "/", a.T, b.T), GT: gt}
		}
		e.sideOblige(st, "div-zero", Not(Eq(b.T, IntLit(0))), pos)
		if isUnsigned(gt) {
			return Val{T: App(SInt, "div", a.T, b.T), GT: gt}
		}
		return Val{T: truncDiv(a.T, b.T), GT: gt}
	case token.REM:
		e.sideOblige(st, "div-zero", Not(Eq(b.T, IntLit(0))), pos)
		if isUnsigned(gt) {
			return Val{T: App(SInt, "mod", a.T, b.T), GT: gt}
		}
		return Val{T: Sub(a.T, App(SInt, "*", b.T, truncDiv(a.T, b.T))), GT: gt}
	case token.SHL:
		if k, err := strconv.Atoi(b.T.S); err == nil && k < 63 {
			return Val{T: App(SInt, "*", a.T, IntLit(1<<uint(k))), GT: gt}
		}
	case token.SHR:
		if k, err := strconv.Atoi(b.T.S); err == nil && k < 63 {
			return Val{T: App(SInt, "div", a.T, IntLit(1<<uint(k))), GT: gt}
		}
	case token.LAND:
		return Val{T: And(a.T, b.T), GT: boolT}
	case token.LOR:
		return Val{T: Or(a.T, b.T), GT: boolT}
	}
	switch op {
	case token.AND, token.OR, token.XOR, token.SHL, token.SHR, token.AND_NOT:
		if a.T.Sort == SBool {
			break
		}
		fn := e.sc.Fun("bitop:"+op.String(), []string{SInt, SInt}, SInt)
		e.note("bit operation " + op.String() + " is uninterpreted")
		return Val{T: App(SInt, fn, a.T, b.T), GT: gt}
	}
	e.fail(pos, "unsupported binary operator %s on %s", op, a.T.Sort)
	return Val{}
}

func truncDiv(a, b Term) Term {
	return Ite(Ge(a, IntLit(0)), App(SInt, "div", a, b), App(SInt, "-", App(SInt, "div", App(SInt, "-", a), b)))
}

// ghostEvent appends an event to the ghost effect trace.
func (e *Exec) ghostEvent(st *State, kind string, args ...Val) {
	// The trace is a sequence of (kind, a1, a2) records encoded through an uninterpreted constructor.
	e.declEvent()
	tr, ok := st.ghosts["trace"]
	if !ok {
		tr = Val{T: e.sc.Const("trace0", SlcSort("Event"))}
	}
	a := []Term{StrLit(""), StrLit("")}
	for i := 0; i < len(args) && i < 2; i++ {
		if args[i].T.Sort == SString {
			a[i] = args[i].T
		}
	}
	ev := T("Event", fmt.Sprintf("(mk_event %s %s %s)", StrLit(kind).S, a[0].S, a[1].S))
	n := SlcLen(tr.T)
	nt := MkSlc("Event", Store(SlcArr(tr.T), n, ev), Add(n, IntLit(1)), True)
	st.ghosts["trace"] = Val{T: nt}
}

func (e *Exec) declEvent() {
	e.sc.Decl("sort:Event", "(declare-datatypes ((Event 0)) (((mk_event (ev_kind String) (ev_a String) (ev_b String)))))")
}

// syncImplFacts states, for every interface asked about in an interface-to-interface assertion and every
// concrete type boxed so far, whether the type implements the interface (decided by go/types).
func (e *Exec) syncImplFacts() {
	if e.askedComparable {
		// comparability of every concrete type boxed so far (decided by go/types)
		if e.implDone == nil {
			e.implDone = map[string]bool{}
		}
		cmp := e.sc.Fun("comparable:dyntype", []string{SInt}, SBool)
		for tag := 1; tag <= len(e.sr.tagTypes); tag++ {
			ct := e.sr.tagTypes[tag]
			k := fmt.Sprintf("comparable/%d", tag)
			if ct == nil || e.implDone[k] {
				continue
			}
			e.implDone[k] = true
			f := App(SBool, cmp, IntLit(int64(tag)))
			if types.Comparable(ct) {
				e.sc.Assert(f)
			} else {
				e.sc.Assert(Not(f))
			}
		}
	}
	if len(e.ifaceAsked) == 0 {
		return
	}
	if e.implDone == nil {
		e.implDone = map[string]bool{}
	}
	for _, key := range sortedKeys(e.ifaceAsked) {
		it := e.ifaceAsked[key]
		iface, ok := it.Underlying().(*types.Interface)
		if !ok {
			continue
		}
		fn := e.sc.Fun("implements:"+key, []string{SInt}, SBool)
		for tag := 1; tag <= len(e.sr.tagTypes); tag++ {
			ct := e.sr.tagTypes[tag]
			if ct == nil {
				continue
			}
			k := fmt.Sprintf("%s/%d", key, tag)
			if e.implDone[k] {
				continue
			}
			e.implDone[k] = true
			if _, isI := ct.Underlying().(*types.Interface); isI {
				continue
			}
			f := App(SBool, fn, IntLit(int64(tag)))
			if types.Implements(ct, iface) {
				e.sc.Assert(f)
			} else {
				e.sc.Assert(Not(f))
			}
		}
	}
}

// assignable: can store() write to this expression (variables, fields, slice/array/map elements, *p)?
func (e *Exec) assignable(x ast.Expr) bool {
	switch l := ast.Unparen(x).(type) {
	case *ast.Ident:
		_, isVar := e.info().ObjectOf(l).(*types.Var)
		return isVar && l.Name != "_"
	case *ast.SelectorExpr:
		if sel := e.info().Selections[l]; sel != nil && sel.Kind() == types.FieldVal {
			if _, isPtr := e.info().TypeOf(l.X).Underlying().(*types.Pointer); isPtr {
				return true
			}
			return e.assignable(l.X)
		}
		return false
	case *ast.IndexExpr:
		switch e.info().TypeOf(l.X).Underlying().(type) {
		case *types.Slice:
			return e.assignable(l.X)
		case *types.Array:
			return e.assignable(l.X)
		}
		return false
	case *ast.StarExpr:
		return true
	}
	return false
}

// markReceived records that this path has completed a receive on channel ch (ghost set read by received(ch)):
// the path continues only after a value was sent on ch or ch was closed.
func (e *Exec) markReceived(st *State, ch Val) {
	cur, ok := st.ghosts["received"]
	if !ok {
		cur = Val{T: e.received0()}
	}
	st.ghosts["received"] = Val{T: Store(cur.T, ch.T, True)}
}

func (e *Exec) received0() Term {
	return T(ArraySort(SInt, SBool), "((as const (Array Int Bool)) false)")
}
