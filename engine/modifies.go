package main

// Frame precision for calls under contract: `modifies a b` havocs exactly the map / pointee named.

import (
	"go/token"
	"go/ast"
	"go/types"
	"strings"
)

// lookupClosure finds the function literal bound to a local variable (in an active frame, or syntactically
// in the enclosing declaration).
func (e *Exec) lookupClosure(obj types.Object) *Closure {
	for i := len(e.frames) - 1; i >= 0; i-- {
		if c, ok := e.frames[i].closures[obj]; ok && c != nil {
			return c
		}
	}
	if c, ok := e.prog.closureOf[obj]; ok {
		return c
	}
	return nil
}

func (e *Exec) calleeContract(info *types.Info, call *ast.CallExpr) (*FuncContract, *Closure, *types.Func) {
	fun := ast.Unparen(call.Fun)
	switch f := fun.(type) {
	case *ast.Ident:
		switch o := info.Uses[f].(type) {
		case *types.Func:
			return e.prog.contractForName(o.Origin().FullName()), nil, o
		case *types.Var:
			if c := e.lookupClosure(o); c != nil && c.Lit != nil {
				return e.prog.contractFor(c.Pkg.PkgPath, c.Name), c, nil
			}
		}
	case *ast.SelectorExpr:
		if sel, ok := info.Selections[f]; ok && sel.Kind() == types.MethodVal {
			fn := sel.Obj().(*types.Func)
			return e.prog.contractForName(fn.Origin().FullName()), nil, fn
		}
		if o, ok := info.Uses[f.Sel].(*types.Func); ok {
			return e.prog.contractForName(o.Origin().FullName()), nil, o
		}
	}
	return nil, nil, nil
}

// contractHeapNames: for a call to a callee whose contract has an explicit modifies list, the heap names
// that list denotes. ok=false if the callee has no such contract or a name cannot be resolved.
func (e *Exec) contractHeapNames(info *types.Info, call *ast.CallExpr) (map[string]bool, bool) {
	fc, clo, fn := e.calleeContract(info, call)
	if fc == nil || !fc.ModSet || len(fc.Modifies) == 0 {
		return nil, false
	}
	out := map[string]bool{}
	if e.heapSorts == nil {
		e.heapSorts = map[string]string{}
	}
	for _, m0 := range fc.Modifies {
		parts := strings.Split(m0, ".")
		m := parts[0]
		var t types.Type
		switch {
		case clo != nil:
			if sc := clo.Pkg.Types.Scope().Innermost(clo.Lit.Pos()); sc != nil {
				if _, obj := sc.LookupParent(m, clo.Lit.Pos()); obj != nil {
					t = obj.Type()
				}
			}
			if t == nil {
				sig, _ := clo.Pkg.TypesInfo.TypeOf(clo.Lit).(*types.Signature)
				t = paramType(sig, m)
			}
		case fn != nil:
			t = paramType(fn.Type().(*types.Signature), m)
		}
		if t == nil {
			return nil, false
		}
		// follow a field path to the reference that is written
		for _, f := range parts[1:] {
			t = fieldType(t, f)
			if t == nil {
				return nil, false
			}
		}
		// the cell can be named only when the callee's parameter is bound to a plain variable of the caller
		cell := ""
		if len(parts) == 1 {
			if clo != nil {
				cell = m // free variable of a closure: the caller's own variable
			} else if a := argFor(fn, call, m); a != nil {
				if id, ok := ast.Unparen(a).(*ast.Ident); ok {
					cell = id.Name
				} else if u, ok := ast.Unparen(a).(*ast.UnaryExpr); ok && u.Op == token.AND {
					cell = freshCellOnly // &lv / &T{...}: a cell allocated at the call
				}
			}
		}
		switch u := t.Underlying().(type) {
		case *types.Map:
			n, s := e.mapHeap(u)
			out[n+"\x00"+cell] = true
			e.heapSorts[n] = s
		case *types.Pointer:
			n, s := e.ptrHeap(u.Elem())
			out[n+"\x00"+cell] = true
			e.heapSorts[n] = s
		default:
			return nil, false
		}
	}
	return out, true
}

func paramType(sig *types.Signature, name string) types.Type {
	if sig == nil {
		return nil
	}
	if r := sig.Recv(); r != nil && r.Name() == name {
		return r.Type()
	}
	for i := 0; i < sig.Params().Len(); i++ {
		if sig.Params().At(i).Name() == name {
			return sig.Params().At(i).Type()
		}
	}
	return nil
}

// havocModifies applies the frame of a contract at a call: nothing, the named cells, or everything.
func (e *Exec) havocModifies(st *State, fc *FuncContract, env *cenv, name string) {
	if !fc.ModSet {
		e.havocHeaps(st, "call to "+name)
		return
	}
	for _, m := range fc.Modifies {
		v, ok := e.resolveModifies(st, env, m)
		if !ok || v.GT == nil {
			e.havocHeaps(st, "call to "+name+" (modifies "+m+" not resolvable)")
			return
		}
		switch u := v.GT.Underlying().(type) {
		case *types.Map:
			hn, hs := e.mapHeap(u)
			fresh := e.sc.Fresh("modified_"+m, e.sr.mapValSort(u))
			st.heaps[hn] = Store(e.heapRead(st, hn, hs), v.T, fresh)
		case *types.Pointer:
			hn, hs := e.ptrHeap(u.Elem())
			fresh := e.sc.Fresh("modified_"+m, e.sr.sortOf(u.Elem()))
			st.heaps[hn] = Store(e.heapRead(st, hn, hs), v.T, fresh)
		default:
			e.havocHeaps(st, "call to "+name+" (modifies "+m+" is not a reference)")
			return
		}
	}
}

// resolveModifies evaluates an entry of a modifies list: a variable name or a field path (cache.added).
func (e *Exec) resolveModifies(st *State, env *cenv, m string) (v Val, ok bool) {
	if !strings.Contains(m, ".") {
		return e.tryResolve(st, env, m)
	}
	x, err := parseContractExpr(m)
	if err != nil {
		return Val{}, false
	}
	defer func() {
		if r := recover(); r != nil {
			if _, isUns := r.(unsupported); !isUns {
				panic(r)
			}
			v, ok = Val{}, false
		}
	}()
	e.inContract++
	defer func() { e.inContract-- }()
	return e.cev(e.specState(st), x, env), true
}

// capturedVal gives a free variable of a function literal under contract its (arbitrary) entry value.
func (e *Exec) capturedVal(o *types.Var) (Val, bool) {
	if len(e.frames) == 0 {
		return Val{}, false
	}
	if _, isLit := e.frames[0].node.(*ast.FuncLit); !isLit {
		return Val{}, false
	}
	s := e.sr.sortOf(o.Type())
	v := Val{T: e.sc.Const("cap:"+o.Name(), s), GT: o.Type()}
	e.typeFactsGlobal(v)
	switch o.Type().Underlying().(type) {
	case *types.Pointer, *types.Map:
		e.refIsOld(v.T)
	}
	if c := e.lookupClosure(o); c != nil {
		v.Fn = c
	}
	return v, true
}

// isCaptured: v is a free variable of the function literal under contract (declared outside its body).
func (e *Exec) isCaptured(v *types.Var) bool {
	if len(e.frames) == 0 {
		return false
	}
	lit, ok := e.frames[0].node.(*ast.FuncLit)
	if !ok || !v.Pos().IsValid() {
		return false
	}
	return v.Pos() < lit.Pos() || v.Pos() > lit.End()
}

// fieldType returns the type of field f of (a pointer to) a struct type, or nil.
func fieldType(t types.Type, f string) types.Type {
	if p, ok := t.Underlying().(*types.Pointer); ok {
		t = p.Elem()
	}
	st, ok := t.Underlying().(*types.Struct)
	if !ok {
		return nil
	}
	for i := 0; i < st.NumFields(); i++ {
		if st.Field(i).Name() == f {
			return st.Field(i).Type()
		}
	}
	return nil
}

// argFor returns the caller's expression bound to the callee's parameter (or receiver) of that name.
func argFor(fn *types.Func, call *ast.CallExpr, name string) ast.Expr {
	if fn == nil {
		return nil
	}
	sig := fn.Type().(*types.Signature)
	if r := sig.Recv(); r != nil && r.Name() == name {
		if sel, ok := ast.Unparen(call.Fun).(*ast.SelectorExpr); ok {
			return sel.X
		}
		return nil
	}
	for i := 0; i < sig.Params().Len() && i < len(call.Args); i++ {
		if sig.Params().At(i).Name() == name {
			if sig.Variadic() && i == sig.Params().Len()-1 {
				return nil
			}
			return call.Args[i]
		}
	}
	return nil
}
