package main

// Per-function verification: builds the obligations of one function under contract.

import (
	"strconv"
	"regexp"
	"fmt"
	"go/ast"
	"go/token"
	"go/types"
	"os"
	"sort"
	"strings"

	"golang.org/x/tools/go/packages"
)

type FuncResult struct {
	Pkg      string
	Key      string
	Name     string
	Obls     []*Obligation
	Script   *Script
	Notes    map[string]int
	Trusted  map[string]int
	Inlined  map[string]int
	Err      string // translation failure
	ErrPos   string
	Missing  bool
	Contract *FuncContract
	IsLemma  bool
	Replay   *replayInfo
	Prog     *Program
}

func newExec(prog *Program, name string) *Exec {
	sc := NewScript()
	return &Exec{prog: prog, sc: sc, sr: newSortReg(sc), notes: map[string]int{}, trusted: map[string]int{}, inlined: map[string]int{},
		fnName: name, specDone: map[string]bool{}}
}

func (e *Exec) assertAxioms(pkgPath string, only []string) {
	cf := e.prog.contracts[pkgPath]
	if cf == nil {
		return
	}
	st := &State{pc: True, vars: map[types.Object]Val{}, heaps: map[string]Term{}, ghosts: map[string]Val{}}
	for _, ax := range cf.Axioms {
		if only != nil {
			found := false
			for _, o := range only {
				if o == ax.Name {
					found = true
				}
			}
			if !found {
				continue
			}
		}
		env := &cenv{vals: map[string]Val{}, pkgPath: pkgPath}
		t := e.evContract(st, ax.Expr, env)
		e.sc.Assert(t)
		e.trust("axiom " + ax.Name)
	}
}

func verifyFunc(prog *Program, fc *FuncContract) (res *FuncResult) {
	short := shortName(fc.Pkg) + "." + fc.Key
	res = &FuncResult{Pkg: fc.Pkg, Key: fc.Key, Name: short, Contract: fc, Prog: prog}
	node, pkg, _ := prog.findTarget(fc.Pkg, fc.Key)
	if node == nil {
		res.Missing = true
		res.Err = "function not found in package"
		return res
	}
	e := newExec(prog, short)
	res.Script = e.sc
	defer func() {
		res.Obls = stabiliseNames(e.obls)
		res.Notes = e.notes
		res.Trusted = e.trusted
		res.Inlined = e.inlined
		if r := recover(); r != nil {
			if u, ok := r.(unsupported); ok {
				res.Err = u.msg
				res.ErrPos = e.posStr(u.pos)
				return
			}
			panic(r)
		}
	}()
	info := pkg.TypesInfo
	var ft *ast.FuncType
	var body *ast.BlockStmt
	var recvList *ast.FieldList
	var sig *types.Signature
	switch n := node.(type) {
	case *ast.FuncDecl:
		ft, body, recvList = n.Type, n.Body, n.Recv
		sig = info.Defs[n.Name].Type().(*types.Signature)
	case *ast.FuncLit:
		ft, body = n.Type, n.Body
		sig = info.TypeOf(n).(*types.Signature)
	}
	fr := &callFrame{name: short, pkg: pkg, node: node, sig: sig, contract: fc, top: true, closures: map[types.Object]*Closure{}}
	e.frames = []*callFrame{fr}
	e.stack = []string{short}
	e.curPkg = pkg
	st := &State{pc: True, vars: map[types.Object]Val{}, heaps: map[string]Term{}, ghosts: map[string]Val{}}
	env := &cenv{vals: map[string]Val{}, pkgPath: fc.Pkg}
	bindParam := func(id *ast.Ident) {
		obj := info.Defs[id]
		if obj == nil || id.Name == "_" {
			return
		}
		s := e.sr.sortOf(obj.Type())
		v := Val{T: e.sc.Const("in:"+id.Name, s), GT: obj.Type()}
		e.typeFactsGlobal(v)
		e.inputFacts(v)
		switch obj.Type().Underlying().(type) {
		case *types.Pointer, *types.Map:
			e.refIsOld(v.T)
		}
		if isSlcSort(s) {
			v.Orig = map[string]bool{id.Name: true}
		} else if _, isIface := obj.Type().Underlying().(*types.Interface); isIface {
			// an interface parameter may box a slice of the caller's
			v.Orig = map[string]bool{id.Name: true}
		}
		st.vars[obj] = v
		env.vals[id.Name] = v
		e.addInput(id.Name, v)
	}
	if recvList != nil {
		for _, f := range recvList.List {
			for _, nm := range f.Names {
				bindParam(nm)
			}
		}
	}
	for _, f := range ft.Params.List {
		for _, nm := range f.Names {
			bindParam(nm)
		}
	}
	if ft.Results != nil {
		for _, f := range ft.Results.List {
			if len(f.Names) == 0 {
				fr.results = append(fr.results, nil)
				continue
			}
			for _, nm := range f.Names {
				obj := info.Defs[nm]
				fr.results = append(fr.results, obj)
				if obj != nil {
					st.vars[obj] = e.zero(obj.Type())
				}
			}
		}
	}
	env.resolve = func(name string, s *State) (Val, bool) {
		// captured variables of a closure under contract
		for k, v := range s.vars {
			if k.Name() == name {
				return v, true
			}
		}
		if _, isLit := node.(*ast.FuncLit); isLit {
			sc := pkg.Types.Scope().Innermost(body.Pos())
			if sc != nil {
				if _, obj := sc.LookupParent(name, body.Pos()); obj != nil {
					if _, ok := obj.(*types.Var); ok {
						return e.objVal(s, obj, body.Pos()), true
					}
				}
			}
		}
		return Val{}, false
	}
	// axioms of every loaded package under contract (a callee's well-formedness assumptions travel with it)
	for _, p := range sortedKeys(prog.contracts) {
		if prog.pkgs[p] != nil {
			e.assertAxioms(p, nil)
		}
	}
	for _, r := range fc.Requires {
		e.assume(st, e.evContract(st, r.Expr, env))
	}
	if o := e.oblige(st, short+"#cover:pre", "cover", nil, False, node.Pos()); o != nil {
		o.ExpectSat = true
	}
	old := st.clone()
	oldStates[fr] = old
	env.old = old
	e.block(st, body.List)
	if !st.dead {
		var vals []Val
		for _, r := range fr.results {
			if r != nil {
				vals = append(vals, st.vars[r])
			}
		}
		// falling off the end of the body is a return too
		e.returnsiteChecks(st, &ast.ReturnStmt{Return: body.Rbrace}, vals)
		fr.returns = append(fr.returns, &retRec{st: st.clone(), vals: vals, ndefer: -1})
	}
	for _, rr := range fr.returns {
		nd := len(fr.defers)
		if rr.ndefer >= 0 && rr.ndefer < nd {
			nd = rr.ndefer // a return before a defer statement does not run it
		}
		for j := nd - 1; j >= 0; j-- {
			fr.defers[j](rr.st)
		}
		for k, r := range fr.results {
			if r != nil && k < len(rr.vals) {
				rr.vals[k] = rr.st.vars[r]
			}
		}
	}
	// explicit panics / fatal exits
	allowed := fc.Opts["panics"] == "allowed"
	for i, ps := range fr.panics {
		if allowed {
			continue
		}
		e.oblige(ps, fmt.Sprintf("%s#nopanic:explicit-%d", short, i+1), "no-panic", nil, False, node.Pos())
	}
	// merge exits
	var live []*retRec
	for _, rr := range fr.returns {
		if !rr.st.dead {
			live = append(live, rr)
		}
	}
	if len(live) == 0 {
		// the function never returns normally: every ensures holds vacuously, which is what
		// "always panics" contracts (ensures false) rely on.
		final := &State{pc: False, vars: map[types.Object]Val{}, heaps: map[string]Term{}, ghosts: map[string]Val{}}
		for _, en := range fc.Ensures {
			e.obls = append(e.obls, &Obligation{Name: short + "#post:" + en.Name, Kind: "post", Props: en.Props, PC: False, Goal: True, Func: short, Clause: en.Src})
		}
		_ = final
		return res
	}
	final := live[0].st
	vals := append([]Val{}, live[0].vals...)
	for _, rr := range live[1:] {
		for k := range vals {
			if k < len(rr.vals) {
				vals[k] = e.mergeVal(final.pc, vals[k], rr.vals[k], "ret")
			}
		}
		final = e.merge2(final, rr.st)
	}
	neverReturns := false
	for _, en := range fc.Ensures {
		if strings.TrimSpace(en.Src) == "false" {
			neverReturns = true // the contract says the function has no normal exit: an unreachable exit is the point
		}
	}
	if !neverReturns {
		if o := e.oblige(final, short+"#cover:exit", "cover", nil, False, node.Pos()); o != nil {
			o.ExpectSat = true
		}
	}
	var resVal Val
	switch len(vals) {
	case 0:
	case 1:
		resVal = vals[0]
		resVal.GT = sig.Results().At(0).Type()
	default:
		for k := range vals {
			vals[k].GT = sig.Results().At(k).Type()
		}
		resVal = Val{Tuple: vals}
	}
	if sig.Results().Len() > 0 {
		bindResults(env, sig, resVal)
	}
	perReturn := fc.Opts["atomic"] == "lock"
	for _, en := range fc.Ensures {
		var g Term
		if perReturn {
			// each return is judged against the state at its own last lock acquisition
			g = True
			for _, rr := range live {
				renv := &cenv{vals: map[string]Val{}, resolve: env.resolve, old: old, pkgPath: env.pkgPath}
				for k, v := range env.vals {
					renv.vals[k] = v
				}
				if rr.st.anchor != nil {
					renv.old = rr.st.anchor
				}
				var rv Val
				switch len(rr.vals) {
				case 0:
				case 1:
					rv = rr.vals[0]
					rv.GT = sig.Results().At(0).Type()
				default:
					vs := append([]Val{}, rr.vals...)
					for k := range vs {
						vs[k].GT = sig.Results().At(k).Type()
					}
					rv = Val{Tuple: vs}
				}
				if sig.Results().Len() > 0 {
					bindResults(renv, sig, rv)
				}
				g = And(g, Implies(rr.st.pc, e.evContract(rr.st, en.Expr, renv)))
			}
		} else {
			g = e.evContract(final, en.Expr, env)
		}
		var region Term
		if en.Region != "" {
			region = e.regionTerm(final, en.Region, env)
			o := e.oblige(final, short+"#canary:"+en.Name, "canary", en.Props, Or(Not(region), g), node.Pos())
			if o != nil {
				o.ExpectSat = true
				o.Region = en.Region
				o.Clause = en.Src
			}
			g = Or(region, g)
		}
		o := e.oblige(final, short+"#post:"+en.Name, "post", en.Props, g, node.Pos())
		if o != nil {
			o.Clause = en.Src
			o.Region = en.Region
		}
	}
	if os.Getenv("GOVC_DEBUG") != "" {
		fmt.Fprintf(os.Stderr, "DEBUG %s: final ghosts %v modset=%v\n", short, sortedKeys(final.ghosts), fc.ModSet)
	}
	if fc.ModSet {
		allowedMod := map[string]bool{}
		for _, m := range fc.Modifies {
			allowedMod[m] = true
		}
		// `modifies p` for a pointer p covers the backing arrays of the slice fields of its pointee
		var pointeePrefixes []string
		for _, m := range fc.Modifies {
			if v, ok := e.resolveModifies(old, env, m); ok && v.GT != nil {
				if pt, isPtr := v.GT.Underlying().(*types.Pointer); isPtr {
					pointeePrefixes = append(pointeePrefixes, "*"+typeKey(pt.Elem())+".")
				}
			}
		}
		framed := map[string]bool{}
		for _, k := range sortedKeys(final.ghosts) {
			if strings.HasPrefix(k, "written:") {
				p := strings.TrimPrefix(k, "written:")
				if allowedMod[p] {
					continue
				}
				covered := false
				for _, pre := range pointeePrefixes {
					if strings.HasPrefix(p, pre) {
						covered = true
					}
				}
				if covered {
					continue
				}
				framed[p] = true
				e.oblige(final, short+"#frame:"+p, "frame", fc.Props, Not(final.ghosts[k].T), node.Pos())
			}
		}
		// backing arrays reachable from slice parameters that were never written: the obligation is trivially
		// true, but it is recorded so that the claim exists on the unchanged tree (and fails by name later)
		for _, in := range sortedKeys(env.vals) {
			v := env.vals[in]
			if !v.Orig[in] || v.GT == nil {
				continue
			}
			names := []string{in}
			if sl, ok := v.GT.Underlying().(*types.Slice); ok {
				switch sl.Elem().Underlying().(type) {
				case *types.Slice, *types.Interface:
					names = append(names, in+"[*]")
				}
			}
			for _, p := range names {
				if framed[p] || allowedMod[p] {
					continue
				}
				e.oblige(final, short+"#frame:"+p, "frame", fc.Props, True, node.Pos())
			}
		}
		if len(fc.Modifies) == 0 || !allowedMod["heap"] {
			for _, k := range sortedKeys(final.heaps) {
				if strings.HasPrefix(k, "G:") && allowedMod["globals"] {
					continue
				}
				init, ok := old.heaps[k]
				if !ok {
					init = e.initialHeap(k, final.heaps[k].Sort)
					if strings.HasPrefix(k, "G:") {
						continue
					}
				}
				// only reference cells that existed at entry are compared (fresh allocations are not a frame violation)
				h := final.heaps[k]
				if h.S == init.S {
					continue
				}
				alloc0 := e.sc.Const("alloc0", SInt)
				// cells named in the modifies list are exempt
				except := ""
				for _, m := range fc.Modifies {
					v, ok := e.resolveModifies(old, env, m)
					if !ok || v.GT == nil {
						continue
					}
					var hn string
					switch u := v.GT.Underlying().(type) {
					case *types.Map:
						hn, _ = e.mapHeap(u)
					case *types.Pointer:
						hn, _ = e.ptrHeap(u.Elem())
					}
					if hn == k {
						except += fmt.Sprintf(" (not (= r %s))", v.T.S)
					}
				}
				g := T(SBool, fmt.Sprintf("(forall ((r Int)) (=> (and (<= 0 r) (< r %s)%s) (= (select %s r) (select %s r))))", alloc0.S, except, h.S, init.S))
				if !strings.HasPrefix(h.Sort, "(Array Int") {
					g = Eq(h, init)
				}
				e.oblige(final, short+"#frame:"+fileSafe(k), "frame", fc.Props, g, node.Pos())
			}
		}
	}
	return res
}

// regionTerm evaluates a region predicate (a boolean spec function) on the current inputs, binding its
// parameters by name.
func (e *Exec) regionTerm(st *State, region string, env *cenv) Term {
	sp := e.prog.specFor(env.pkgPath, region)
	if sp == nil {
		e.fail(token.NoPos, "unknown region %q", region)
	}
	var args []Val
	for _, p := range sp.Params {
		v, ok := e.tryResolve(st, env, p.Name)
		if !ok {
			// a tracked ghost variable of the contract
			v, ok = e.trackedGhost(st, p.Name)
		}
		if !ok {
			e.fail(token.NoPos, "region %s: no input named %s", region, p.Name)
		}
		args = append(args, v)
	}
	e.inContract++
	defer func() { e.inContract-- }()
	return e.specCall(st, sp, args, env, token.NoPos).T
}

// inputFacts constrains string inputs to byte strings (Go strings are byte sequences).
func (e *Exec) inputFacts(v Val) {
	if v.T.Sort == SString {
		e.sc.Assert(T(SBool, fmt.Sprintf("(str.in_re %s (re.* (re.range \"\\u{0}\" \"\\u{ff}\")))", v.T.S)))
		return
	}
	if si := e.sr.structInfoOf(v.T.Sort); si != nil && len(si.Fields) <= 12 {
		for i, f := range si.Fields {
			if f.Sort == SString {
				e.sc.Assert(T(SBool, fmt.Sprintf("(str.in_re %s (re.* (re.range \"\\u{0}\" \"\\u{ff}\")))", si.get(v.T, i).S)))
			}
		}
	}
}

// addInput registers model terms to fetch for an input.
func (e *Exec) addInput(name string, v Val) {
	switch {
	case v.T.Sort == SInt || v.T.Sort == SBool || v.T.Sort == SString:
		e.inputs = append(e.inputs, modelReq{name, v.T.S})
	case isSlcSort(v.T.Sort):
		e.inputs = append(e.inputs, modelReq{name + ".len", SlcLen(v.T).S})
		el := slcElem(v.T.Sort)
		for i := 0; i < 4; i++ {
			it := Select(SlcArr(v.T), IntLit(int64(i)))
			if el == SInt || el == SBool || el == SString {
				e.inputs = append(e.inputs, modelReq{fmt.Sprintf("%s[%d]", name, i), it.S})
			} else if si := e.sr.structInfoOf(el); si != nil {
				for fi, f := range si.Fields {
					if f.Sort == SInt || f.Sort == SBool || f.Sort == SString {
						e.inputs = append(e.inputs, modelReq{fmt.Sprintf("%s[%d].%s", name, i, f.Name), si.get(it, fi).S})
					}
				}
			}
		}
	default:
		if si := e.sr.structInfoOf(v.T.Sort); si != nil && len(si.Fields) <= 12 {
			for i, f := range si.Fields {
				if f.Sort == SInt || f.Sort == SBool || f.Sort == SString {
					e.inputs = append(e.inputs, modelReq{name + "." + f.Name, si.get(v.T, i).S})
				}
			}
		}
	}
}

func verifyLemma(prog *Program, pkgPath string, lm *Lemma) (res *FuncResult) {
	short := shortName(pkgPath) + ".lemma:" + lm.Name
	res = &FuncResult{Pkg: pkgPath, Key: "lemma:" + lm.Name, Name: short, IsLemma: true}
	e := newExec(prog, short)
	res.Script = e.sc
	defer func() {
		res.Obls = stabiliseNames(e.obls)
		res.Notes = e.notes
		res.Trusted = e.trusted
		res.Inlined = e.inlined
		if r := recover(); r != nil {
			if u, ok := r.(unsupported); ok {
				res.Err = u.msg
				res.ErrPos = e.posStr(u.pos)
				return
			}
			panic(r)
		}
	}()
	pkg := prog.pkgs[pkgPath]
	if pkg == nil {
		res.Err = "package not loaded"
		return
	}
	fr := &callFrame{name: short, pkg: pkg, closures: map[types.Object]*Closure{}, sig: types.NewSignatureType(nil, nil, nil, nil, nil, false)}
	e.frames = []*callFrame{fr}
	st := &State{pc: True, vars: map[types.Object]Val{}, heaps: map[string]Term{}, ghosts: map[string]Val{}}
	env := &cenv{vals: map[string]Val{}, pkgPath: pkgPath}
	if len(lm.Uses) > 0 {
		e.assertAxioms(pkgPath, lm.Uses)
	}
	g := e.evContract(st, lm.Expr, env)
	o := e.oblige(st, short, "lemma", lm.Props, g, token.NoPos)
	if o != nil {
		o.Clause = lm.Src
	}
	return res
}

// packagesNeeded returns the package paths that must be loaded for a property.
func contractTargets(contracts map[string]*ContractFile, prop string) (funcs []*FuncContract, lemmas map[string][]*Lemma, sites map[string][]*SiteRule) {
	lemmas = map[string][]*Lemma{}
	sites = map[string][]*SiteRule{}
	pkgs := sortedKeys(contracts)
	for _, p := range pkgs {
		cf := contracts[p]
		for _, k := range cf.Order {
			fc := cf.Funcs[k]
			if fc.Assumed {
				continue
			}
			if fc.mentions(prop) {
				funcs = append(funcs, fc)
			}
		}
		for _, lm := range cf.Lemmas {
			if hasProp(lm.Props, prop) {
				lemmas[p] = append(lemmas[p], lm)
			}
		}
		for _, s := range cf.Sites {
			if hasProp(s.Props, prop) {
				sites[p] = append(sites[p], s)
			}
		}
	}
	return
}

func (fc *FuncContract) mentions(prop string) bool {
	if hasProp(fc.Props, prop) {
		return true
	}
	for _, c := range fc.Ensures {
		if hasProp(c.Props, prop) {
			return true
		}
	}
	for _, c := range fc.Invs {
		if hasProp(c.Props, prop) {
			return true
		}
	}
	for _, c := range fc.Sites {
		if hasProp(c.Props, prop) {
			return true
		}
	}
	return false
}

// mentionsAny: the contract carries at least one property tag.
func (fc *FuncContract) mentionsAny() bool {
	if len(fc.Props) > 0 {
		return true
	}
	for _, cs := range [][]*Clause{fc.Ensures, fc.Invs, fc.Sites} {
		for _, c := range cs {
			for _, p := range c.Props {
				if p != "unclaimed" && p != "bounded" {
					return true
				}
			}
		}
	}
	return false
}

func hasProp(ps []string, p string) bool {
	for _, x := range ps {
		if x == p {
			return true
		}
	}
	return false
}

// relevant decides whether an obligation counts for a property.
func (o *Obligation) relevant(prop string, fc *FuncContract) bool {
	if len(o.Props) > 0 {
		return hasProp(o.Props, prop)
	}
	// untagged obligations (safety, invariants, preconditions, covers) belong to every property of the function
	return true
}

var _ = sort.Strings
var _ *packages.Package

var siteNameRe = regexp.MustCompile(`^(.*)@L(-?\d+)((?:\.\d+)?)$`)

// stabiliseNames replaces the line offset in the name of a site obligation (callsite, returnsite, no-panic,
// pre@call: "...@L37") by the rank of that line among the sites of the same clause in the function ("...@s2"),
// so that inserting a comment or a blank line, or moving the function, does not rename the obligation.
func stabiliseNames(obls []*Obligation) []*Obligation {
	lines := map[string]map[int]bool{}
	for _, o := range obls {
		if m := siteNameRe.FindStringSubmatch(o.Name); m != nil {
			n, _ := strconv.Atoi(m[2])
			if lines[m[1]] == nil {
				lines[m[1]] = map[int]bool{}
			}
			lines[m[1]][n] = true
		}
	}
	rank := map[string]map[int]int{}
	for base, set := range lines {
		var ls []int
		for l := range set {
			ls = append(ls, l)
		}
		sort.Ints(ls)
		rank[base] = map[int]int{}
		for i, l := range ls {
			rank[base][l] = i + 1
		}
	}
	for _, o := range obls {
		if m := siteNameRe.FindStringSubmatch(o.Name); m != nil {
			n, _ := strconv.Atoi(m[2])
			o.Name = fmt.Sprintf("%s@s%d%s", m[1], rank[m[1]][n], m[3])
		}
	}
	return obls
}
