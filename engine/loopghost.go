package main

// Ghost effects of loop bodies. A loop is cut at its head, so effects of the body on ghost state
// (in-place writes to caller-visible arrays, trace events, closed channels, allocations) would be lost in
// the state that continues after the loop. A dry run of one iteration discovers which ghost variables the
// body can change; those are then havocked at the loop head (monotonically for "written" flags).

import (
	"sort"
	"strings"
)

func (e *Exec) ghostEffects(st *State, iter func(*State)) {
	f := e.top()
	saveObl, saveRet, savePan := len(e.obls), len(f.returns), len(f.panics)
	saveLoopN, saveLitN := f.loopN, f.litN
	saveNames := map[string]int{}
	for k, v := range e.nameCount {
		saveNames[k] = v
	}
	type jl struct{ b, c int }
	var saveJ []jl
	for _, j := range f.jumps {
		saveJ = append(saveJ, jl{len(j.breaks), len(j.continues)})
	}
	saveQuiet, saveDry := e.quiet, e.dry
	e.quiet, e.dry = true, true
	saveNotes := map[string]int{}
	for k, v := range e.notes {
		saveNotes[k] = v
	}
	dry := st.clone()
	jf := &jumpFrame{isLoop: true}
	f.jumps = append(f.jumps, jf)
	iter(dry)
	f.jumps = f.jumps[:len(f.jumps)-1]
	e.quiet, e.dry = saveQuiet, saveDry
	outs := []*State{dry}
	outs = append(outs, jf.breaks...)
	outs = append(outs, jf.continues...)
	for _, rr := range f.returns[saveRet:] {
		outs = append(outs, rr.st)
	}
	for i, j := range f.jumps {
		if i < len(saveJ) {
			outs = append(outs, j.breaks[saveJ[i].b:]...)
			outs = append(outs, j.continues[saveJ[i].c:]...)
			j.breaks = j.breaks[:saveJ[i].b]
			j.continues = j.continues[:saveJ[i].c]
		}
	}
	e.obls = e.obls[:saveObl]
	f.returns = f.returns[:saveRet]
	f.panics = f.panics[:savePan]
	f.loopN, f.litN = saveLoopN, saveLitN
	e.nameCount = saveNames
	e.notes = saveNotes
	changed := map[string]string{}
	for _, o := range outs {
		if o == nil {
			continue
		}
		for k, g := range o.ghosts {
			if cur, ok := st.ghosts[k]; !ok || cur.T.S != g.T.S {
				changed[k] = g.T.Sort
			}
		}
	}
	keys := make([]string, 0, len(changed))
	for k := range changed {
		keys = append(keys, k)
	}
	sort.Strings(keys)
	for _, k := range keys {
		srt := changed[k]
		switch {
		case strings.HasPrefix(k, "written:"):
			cur := False
			if c, ok := st.ghosts[k]; ok {
				cur = c.T
			}
			st.ghosts[k] = Val{T: Or(cur, e.sc.Fresh("maywrite", SBool))}
		case k == "heapver":
			// heaps are havocked by the loop head already
		case k == "alloc":
			cur, ok := st.ghosts[k]
			if !ok {
				cur = Val{T: e.sc.Const("alloc0", SInt)}
			}
			n := e.sc.Fresh("alloc", SInt)
			e.sc.Assert(Ge(n, cur.T))
			st.ghosts[k] = Val{T: n}
		case strings.HasPrefix(k, "set:"):
			// a collected set only grows
			cur, ok := st.ghosts[k]
			if !ok {
				cur, _ = e.ghostSet(st, strings.TrimPrefix(k, "set:"))
			}
			n := e.sc.Fresh("ghost_"+k, srt)
			if cur.T.S != "" {
				es := strings.TrimSuffix(strings.TrimPrefix(srt, "(Array "), " Bool)")
				e.sc.Assert(T(SBool, "(forall ((x "+es+")) (! (=> (select "+cur.T.S+" x) (select "+n.S+" x)) :pattern ((select "+n.S+" x))))"))
			}
			st.ghosts[k] = Val{T: n}
		default:
			if k == "trace" {
				e.declEvent()
			}
			st.ghosts[k] = Val{T: e.sc.Fresh("ghost_"+k, srt)}
			if isSlcSort(srt) {
				e.sc.Assert(Ge(SlcLen(st.ghosts[k].T), IntLit(0)))
			}
		}
	}
}

// suppressSites: call-site clauses, tracked ghosts and called() flags belong to the function under contract
// itself: they are not applied inside inlined callees. During the dry run of a loop body they ARE applied
// (that is how the ghosts a loop changes are discovered); the obligations emitted meanwhile are discarded.
func (e *Exec) suppressSites() bool {
	return e.inlineDepth > 0 || (e.quiet && !e.dry)
}
