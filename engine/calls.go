package main

// Calls: conversions, builtins, library models, call-by-contract, inlining, opaque calls.

import (
	"strconv"
	"fmt"
	"go/ast"
	"go/token"
	"go/types"
	"strings"

	"golang.org/x/tools/go/packages"
)

// functions with no effect on verified state (logging, locks, metrics)
func isNoEffect(name string) bool {
	switch {
	case strings.HasPrefix(name, "(*github.com/thought-machine/please/src/cli/logging.Logger)."),
		strings.HasPrefix(name, "(*github.com/peterebden/go-cli-init/v5/logging.Logger)."),
		strings.HasPrefix(name, "(*gopkg.in/op/go-logging.v1.Logger)."),
		strings.HasPrefix(name, "(github.com/thought-machine/please/src/cli/logging.Logger)."):
		return !strings.HasSuffix(name, ".Fatalf") && !strings.HasSuffix(name, ".Fatal") && !strings.HasSuffix(name, ".Panicf") && !strings.HasSuffix(name, ".Panic")
	case name == "(*sync.Mutex).Lock", name == "(*sync.Mutex).Unlock", name == "(*sync.RWMutex).Lock", name == "(*sync.RWMutex).Unlock",
		name == "(*sync.RWMutex).RLock", name == "(*sync.RWMutex).RUnlock", name == "(*sync.WaitGroup).Add", name == "(*sync.WaitGroup).Done",
		name == "(*sync.WaitGroup).Wait", name == "runtime.Gosched":
		return true
	case strings.HasPrefix(name, "(github.com/prometheus/"), strings.HasPrefix(name, "(*github.com/prometheus/"):
		return true
	}
	return false
}

func isFatal(name string) bool {
	return strings.HasSuffix(name, "Logger).Fatalf") || strings.HasSuffix(name, "Logger).Fatal") || strings.HasSuffix(name, "Logger).Panicf") ||
		strings.HasSuffix(name, "Logger).Panic") || name == "os.Exit" || name == "log.Fatalf" || name == "log.Fatal"
}

// pure library functions: the result is an uninterpreted function of the arguments
var pureStd = map[string]bool{
	"path/filepath.Base": true, "path/filepath.Dir": true, "path/filepath.Ext": true, "path/filepath.Clean": true,
	"path/filepath.IsAbs": true, "path/filepath.Join": true, "path.Base": true, "path.Dir": true, "path.Join": true, "path.Ext": true,
	"path/filepath.ToSlash": true, "path.Clean": true, "path/filepath.Abs": true, "path/filepath.Rel": true,
	"strings.TrimSpace": true, "strings.ToLower": true, "strings.ToUpper": true, "strings.Join": true, "strings.Split": true,
	"strings.TrimLeft": true, "strings.TrimRight": true, "strings.Trim": true, "strings.Fields": true, "strings.Repeat": true,
	"strings.Count": true, "strings.EqualFold": true, "strings.ContainsAny": true, "strings.ContainsRune": true, "strings.IndexRune": true,
	"strings.LastIndex": true, "strings.SplitN": true, "strings.Title": true, "strings.IndexAny": true, "strings.Map": true,
	"strconv.Itoa": true, "strconv.Quote": true, "strconv.FormatInt": true,
	"encoding/hex.EncodeToString": true, "(*encoding/base64.Encoding).EncodeToString": true,
	"bytes.Compare": true,
	"unicode.IsUpper": true, "unicode.IsLower": true, "unicode.IsDigit": true, "unicode.IsLetter": true, "unicode.IsSpace": true,
	"math.Abs": true,
	"slices.Contains": true, "slices.Equal": true, "slices.Index": true,
	// getters of library interfaces: the answer is a function of the value asked
	"(io/fs.DirEntry).Name": true, "(io/fs.DirEntry).IsDir": true, "(io/fs.DirEntry).Type": true,
	"(io/fs.FileInfo).Name": true, "(io/fs.FileInfo).Size": true, "(io/fs.FileInfo).Mode": true, "(io/fs.FileInfo).IsDir": true,
	"(io/fs.FileMode).IsDir": true, "(io/fs.FileMode).IsRegular": true, "(io/fs.FileMode).Type": true, "(io/fs.FileMode).Perm": true,
	"(hash.Hash).Size": true, "(error).Error": true,
	"path/filepath.Split": true, "path.Split": true, "(*os.File).Name": true,
	"os.Getenv": true, // the process environment is fixed for the duration of one decision
}

type stdModel func(e *Exec, st *State, args []Val, x *ast.CallExpr) Val

var stdModels map[string]stdModel

func init() {
	strT := types.Typ[types.String]
	boolT := types.Typ[types.Bool]
	intT := types.Typ[types.Int]
	stdModels = map[string]stdModel{
		"strings.HasPrefix": func(e *Exec, st *State, a []Val, x *ast.CallExpr) Val {
			return Val{T: App(SBool, "str.prefixof", a[1].T, a[0].T), GT: boolT}
		},
		"strings.HasSuffix": func(e *Exec, st *State, a []Val, x *ast.CallExpr) Val {
			return Val{T: App(SBool, "str.suffixof", a[1].T, a[0].T), GT: boolT}
		},
		"strings.Contains": func(e *Exec, st *State, a []Val, x *ast.CallExpr) Val {
			return Val{T: App(SBool, "str.contains", a[0].T, a[1].T), GT: boolT}
		},
		"strings.Compare": func(e *Exec, st *State, a []Val, x *ast.CallExpr) Val {
			return Val{T: Ite(App(SBool, "str.<", a[0].T, a[1].T), IntLit(-1), Ite(Eq(a[0].T, a[1].T), IntLit(0), IntLit(1))), GT: intT}
		},
		// utf8.DecodeRune: consumes 1..4 bytes of a non-empty buffer (0 of an empty one); a multi-byte encoding
		// consists of bytes >= 0x80 only
		"unicode/utf8.DecodeRune": func(e *Exec, st *State, a []Val, x *ast.CallExpr) Val {
			r := e.freshVal("rune", types.Typ[types.Rune])
			n := e.sc.Fresh("runelen", SInt)
			p := a[0].T
			e.assume(st, Ite(Eq(SlcLen(p), IntLit(0)), Eq(n, IntLit(0)), And(Le(IntLit(1), n), Le(n, IntLit(4)), Le(n, SlcLen(p)))))
			e.assume(st, T(SBool, fmt.Sprintf("(forall ((i Int)) (! (=> (and (> %s 1) (<= 0 i) (< i %s)) (>= (select (slc_arr %s) i) 128)) :pattern ((select (slc_arr %s) i))))", n.S, n.S, p.S, p.S)))
			return Val{Tuple: []Val{r, {T: n, GT: intT}}}
		},
		// math.Floor over the reals (floats are modelled as mathematical reals: rounding is not modelled)
		"math.Floor": func(e *Exec, st *State, a []Val, x *ast.CallExpr) Val {
			e.trust("floating point treated as real arithmetic in math.Floor")
			return Val{T: App("Real", "to_real", App(SInt, "to_int", a[0].T)), GT: types.Typ[types.Float64]}
		},
		// strings.Cut(s, sep): before + sep + after == s at the FIRST occurrence of sep, or (s, "", false)
		"strings.Cut": func(e *Exec, st *State, a []Val, x *ast.CallExpr) Val {
			before := e.sc.Fresh("cut_before", SString)
			after := e.sc.Fresh("cut_after", SString)
			found := App(SBool, "str.contains", a[0].T, a[1].T)
			e.assume(st, Ite(found,
				And(Eq(a[0].T, App(SString, "str.++", before, a[1].T, after)),
					Eq(App(SInt, "str.len", before), App(SInt, "str.indexof", a[0].T, a[1].T, IntLit(0)))),
				And(Eq(before, a[0].T), Eq(after, StrLit("")))))
			return Val{Tuple: []Val{{T: before, GT: strT}, {T: after, GT: strT}, {T: found, GT: boolT}}}
		},
		// slices.Clip: same slice, no spare capacity
		"slices.Clip": func(e *Exec, st *State, a []Val, x *ast.CallExpr) Val {
			v := a[0]
			if !isSlcSort(v.T.Sort) && x != nil && len(x.Args) == 1 {
				v = e.ev(st, x.Args[0])
			}
			if !isSlcSort(v.T.Sort) {
				return e.freshVal("clip", e.info().TypeOf(x))
			}
			v.Full = true
			return v
		},
		// slices.Clone: same contents, fresh backing array (no origin)
		"slices.Clone": func(e *Exec, st *State, a []Val, x *ast.CallExpr) Val {
			v := a[0]
			if !isSlcSort(v.T.Sort) && x != nil && len(x.Args) == 1 {
				v = e.ev(st, x.Args[0]) // the argument was converted to the type parameter: take the expression itself
			}
			if !isSlcSort(v.T.Sort) {
				return e.freshVal("clone", e.info().TypeOf(x))
			}
			return Val{T: v.T, GT: v.GT, Full: true}
		},
		// bytes.Equal is an equivalence relation: equality of an abstract "contents" value (quantifier-free)
		"bytes.Equal": func(e *Exec, st *State, a []Val, x *ast.CallExpr) Val {
			so := a[0].T.Sort
			fn := e.sc.Fun("bytes.contents:"+so, []string{so}, SInt)
			return Val{T: Eq(App(SInt, fn, a[0].T), App(SInt, fn, a[1].T)), GT: boolT}
		},
		// bytes.HasPrefix with a prefix of literal length: element-wise comparison (quantifier-free); otherwise an
		// uninterpreted function of both arguments
		"bytes.HasPrefix": func(e *Exec, st *State, a []Val, x *ast.CallExpr) Val {
			n := -1
			if x != nil && len(x.Args) == 2 {
				switch lit := ast.Unparen(x.Args[1]).(type) {
				case *ast.CompositeLit:
					n = len(lit.Elts)
					for _, el := range lit.Elts {
						if _, kv := el.(*ast.KeyValueExpr); kv {
							n = -1
						}
					}
				case *ast.CallExpr: // []byte("literal")
					if len(lit.Args) == 1 {
						if bl, ok := ast.Unparen(lit.Args[0]).(*ast.BasicLit); ok && bl.Kind == token.STRING {
							if sv, err := strconv.Unquote(bl.Value); err == nil {
								n = len(sv)
							}
						}
					}
				}
			}
			if n >= 0 && n <= 32 && isSlcSort(a[0].T.Sort) {
				conds := []Term{Ge(SlcLen(a[0].T), IntLit(int64(n)))}
				for i := 0; i < n; i++ {
					conds = append(conds, Eq(Select(SlcArr(a[0].T), IntLit(int64(i))), Select(SlcArr(a[1].T), IntLit(int64(i)))))
				}
				return Val{T: And(conds...), GT: boolT}
			}
			so := a[0].T.Sort
			fn := e.sc.Fun("bytes.HasPrefix:"+so, []string{so, so}, SBool)
			return Val{T: App(SBool, fn, a[0].T, a[1].T), GT: boolT}
		},
		"strings.Index": func(e *Exec, st *State, a []Val, x *ast.CallExpr) Val {
			return Val{T: App(SInt, "str.indexof", a[0].T, a[1].T, IntLit(0)), GT: intT}
		},
		"strings.IndexByte": func(e *Exec, st *State, a []Val, x *ast.CallExpr) Val {
			return Val{T: App(SInt, "str.indexof", a[0].T, App(SString, "str.from_code", a[1].T), IntLit(0)), GT: intT}
		},
		"strings.LastIndexByte": func(e *Exec, st *State, a []Val, x *ast.CallExpr) Val {
			// r = -1 iff c not in s; else s[r] = c and c does not occur after r
			s, c := a[0].T, App(SString, "str.from_code", a[1].T)
			fn := e.sc.Fun("lastIndexOf", []string{SString, SString}, SInt)
			r := App(SInt, fn, s, c)
			if e.sc.binders > 0 {
				return Val{T: r, GT: intT}
			}
			n := App(SInt, "str.len", s)
			e.sc.Assert(And(Ge(r, IntLit(-1)), Lt(r, n)))
			e.sc.Assert(Eq(Eq(r, IntLit(-1)), Not(App(SBool, "str.contains", s, c))))
			e.sc.Assert(Implies(Ge(r, IntLit(0)), And(Eq(App(SString, "str.at", s, r), c),
				Not(App(SBool, "str.contains", App(SString, "str.substr", s, Add(r, IntLit(1)), n), c)))))
			return Val{T: r, GT: intT}
		},
		"strings.TrimPrefix": func(e *Exec, st *State, a []Val, x *ast.CallExpr) Val {
			s, p := a[0].T, a[1].T
			return Val{T: Ite(App(SBool, "str.prefixof", p, s), App(SString, "str.substr", s, App(SInt, "str.len", p), Sub(App(SInt, "str.len", s), App(SInt, "str.len", p))), s), GT: strT}
		},
		"strings.TrimSuffix": func(e *Exec, st *State, a []Val, x *ast.CallExpr) Val {
			s, p := a[0].T, a[1].T
			return Val{T: Ite(App(SBool, "str.suffixof", p, s), App(SString, "str.substr", s, IntLit(0), Sub(App(SInt, "str.len", s), App(SInt, "str.len", p))), s), GT: strT}
		},
		"strings.ReplaceAll": func(e *Exec, st *State, a []Val, x *ast.CallExpr) Val {
			// str.replace_all with an empty pattern differs from Go; the pattern is required non-empty
			return Val{T: App(SString, "str.replace_all", a[0].T, a[1].T, a[2].T), GT: strT}
		},
		"strings.ContainsAny": func(e *Exec, st *State, a []Val, x *ast.CallExpr) Val {
			// with a constant character set this is a disjunction of str.contains (ASCII sets only)
			if chars, ok := decodeSMTString(a[1].T.S); ok && len(chars) <= 40 {
				var ds []Term
				for i := 0; i < len(chars); i++ {
					if chars[i] >= 0x80 {
						ds = nil
						break
					}
					ds = append(ds, App(SBool, "str.contains", a[0].T, StrLit(string(chars[i]))))
				}
				if ds != nil {
					return Val{T: Or(ds...), GT: boolT}
				}
			}
			fn := e.sc.Fun("pure:strings.ContainsAny", []string{SString, SString}, SBool)
			return Val{T: App(SBool, fn, a[0].T, a[1].T), GT: boolT}
		},
		"fmt.Errorf": func(e *Exec, st *State, a []Val, x *ast.CallExpr) Val {
			r := e.sc.Fresh("err", SInt)
			e.sc.Assert(Not(Eq(r, IntLit(0))))
			return Val{T: r, GT: errorType()}
		},
		"errors.New": func(e *Exec, st *State, a []Val, x *ast.CallExpr) Val {
			r := e.sc.Fresh("err", SInt)
			e.sc.Assert(Not(Eq(r, IntLit(0))))
			return Val{T: r, GT: errorType()}
		},
		"fmt.Sprintf": func(e *Exec, st *State, a []Val, x *ast.CallExpr) Val {
			r := e.freshVal("sprintf", strT)
			// the output starts with the literal text of the format that precedes its first verb
			if chars, ok := decodeSMTString(a[0].T.S); ok {
				pre := ""
				for _, c := range chars {
					if c == '%' || c >= 0x80 {
						break
					}
					pre += string(rune(c))
				}
				if pre != "" {
					e.assume(st, App(SBool, "str.prefixof", StrLit(pre), r.T))
				}
			}
			return r
		},
		"fmt.Sprint": func(e *Exec, st *State, a []Val, x *ast.CallExpr) Val {
			return e.freshVal("sprint", strT)
		},
	}
	for _, n := range []string{"sort.Strings", "sort.Ints", "sort.Slice", "sort.SliceStable", "sort.Sort", "sort.Stable", "slices.Sort", "slices.SortFunc",
		"slices.SortStableFunc", "slices.Reverse", "math/rand.Shuffle", "github.com/thought-machine/please/src/fs.SortPaths"} {
		name := n
		stdModels[name] = func(e *Exec, st *State, a []Val, x *ast.CallExpr) Val {
			return e.permuteInPlace(st, name, a, x)
		}
	}
}

func errorType() types.Type { return types.Universe.Lookup("error").Type() }

// permuteInPlace is the assumed contract of the in-place reordering functions (sort.*, slices.Sort*,
// slices.Reverse): the backing array of the first argument is overwritten with a permutation of itself
// (same length, same multiset of elements — the multiset is an uninterpreted abstraction), and for the
// sorting functions over strings/ints the result is ordered.
func (e *Exec) permuteInPlace(st *State, name string, a []Val, x *ast.CallExpr) Val {
	s := a[0]
	if !isSlcSort(s.T.Sort) && x != nil && len(x.Args) > 0 {
		// sort.Slice takes `any`: use the slice expression itself rather than its boxed value
		if t := e.info().TypeOf(x.Args[0]); t != nil {
			if _, ok := t.Underlying().(*types.Slice); ok {
				s = e.ev(st, x.Args[0])
			}
		}
	}
	if !isSlcSort(s.T.Sort) {
		e.note("in-place reordering of a value that is not a slice expression: not modelled")
		return Val{}
	}
	el := slcElem(s.T.Sort)
	if len(s.T.S) > 60 && e.sc.binders == 0 {
		// the axioms below use the old array in quantifier patterns: give it a name
		nm := e.sc.Fresh("presort", s.T.Sort)
		e.sc.Assert(Eq(nm, s.T))
		s.T = nm
	}
	arr := e.sc.Fresh("permuted", ArraySort(SInt, el))
	n := SlcLen(s.T)
	ms := e.sc.Fun("multiset:"+el, []string{ArraySort(SInt, el), SInt}, SInt)
	e.assume(st, Eq(App(SInt, ms, arr, n), App(SInt, ms, SlcArr(s.T), n)))
	// membership is preserved both ways (what most callers rely on); `opt permutation=multiset` keeps only the
	// (quantifier-free) multiset abstraction for functions whose contracts do not talk about membership
	light := false
	if tc := e.frames[0].contract; tc != nil && tc.Opts["permutation"] == "multiset" {
		light = true
	}
	if tc := e.frames[0].contract; tc != nil && tc.Opts["permutation"] == "keeps" {
		// one direction only: every element of the slice before is still in it afterwards (at a position given by
		// an uninterpreted function) — what "every key is still in the sorted key list" needs, and much cheaper
		light = true
		at := e.sc.Fun(fmt.Sprintf("permat!%d", e.sc.counter), []string{SInt}, SInt)
		e.sc.counter++
		e.assume(st, T(SBool, fmt.Sprintf("(forall ((i Int)) (! (=> (and (<= 0 i) (< i %s)) (and (<= 0 (%s i)) (< (%s i) %s) (= (select %s i) (select %s (%s i))))) :pattern ((select %s i))))",
			n.S, at, at, n.S, SlcArr(s.T).S, arr.S, at, SlcArr(s.T).S)))
	}
	pos := e.sc.Fun(fmt.Sprintf("permpos!%d", e.sc.counter), []string{SInt}, SInt)
	inv := e.sc.Fun(fmt.Sprintf("perminv!%d", e.sc.counter), []string{SInt}, SInt)
	if !light {
		e.assume(st, T(SBool, fmt.Sprintf("(forall ((i Int)) (! (=> (and (<= 0 i) (< i %s)) (and (<= 0 (%s i)) (< (%s i) %s) (= (select %s i) (select %s (%s i))) (= (%s (%s i)) i))) :pattern ((select %s i))))",
			n.S, pos, pos, n.S, arr.S, SlcArr(s.T).S, pos, inv, pos, arr.S)))
		e.assume(st, T(SBool, fmt.Sprintf("(forall ((i Int)) (! (=> (and (<= 0 i) (< i %s)) (and (<= 0 (%s i)) (< (%s i) %s) (= (select %s i) (select %s (%s i))) (= (%s (%s i)) i))) :pattern ((select %s i))))",
			n.S, inv, inv, n.S, SlcArr(s.T).S, arr.S, inv, pos, inv, SlcArr(s.T).S)))
	}
	switch name {
	case "sort.Strings", "sort.Ints", "slices.Sort":
		le := "<="
		if el == SString {
			le = "str.<="
		}
		e.assume(st, T(SBool, fmt.Sprintf("(forall ((i Int) (j Int)) (=> (and (<= 0 i) (< i j) (< j %s)) (%s (select %s i) (select %s j))))", n.S, le, arr.S, arr.S)))
		e.assume(st, T(SBool, fmt.Sprintf("(forall ((j Int)) (! (=> (and (< 0 j) (< j %s)) (%s (select %s (- j 1)) (select %s j))) :pattern ((select %s j))))", n.S, le, arr.S, arr.S, arr.S)))
	}
	if name == "slices.Reverse" {
		e.assume(st, T(SBool, fmt.Sprintf("(forall ((i Int)) (! (=> (and (<= 0 i) (< i %s)) (= (select %s i) (select %s (- (- %s 1) i)))) :pattern ((select %s i))))", n.S, arr.S, SlcArr(s.T).S, n.S, arr.S)))
	}
	nv := Val{T: MkSlc(el, arr, n, SlcNN(s.T)), GT: s.GT, Orig: s.Orig}
	e.recordSliceWrite(st, s, x.Pos())
	if x != nil && len(x.Args) > 0 {
		if e.isLvalue(x.Args[0]) {
			e.store(st, x.Args[0], nv)
		} else {
			e.note("in-place reordering of a non-lvalue slice expression: effect on aliases not modelled")
		}
	}
	// sort.Slice(s, less): afterwards no later element is less than an earlier one. The ordering is obtained
	// by evaluating the (single-expression) less function over two bound indices in the state after the call.
	if (name == "sort.Slice" || name == "sort.SliceStable") && len(a) > 1 && a[1].Fn != nil && a[1].Fn.Lit != nil {
		if t, ok := e.lessOverIndices(st, a[1].Fn, n); ok {
			e.assume(st, t)
		} else {
			e.note("less function of " + name + " is not a single expression: no ordering assumed")
		}
	}
	// sort.Sort(x) / sort.Stable(x) on a named slice type: afterwards x.Less(j, i) is false for i < j, with the
	// (single-expression) Less method of the argument's static type evaluated over two bound indices.
	if (name == "sort.Sort" || name == "sort.Stable") && x != nil && len(x.Args) == 1 {
		if t, ok := e.lessMethodOverIndices(st, x.Args[0], n); ok {
			e.assume(st, t)
		} else {
			e.note("Less method of the argument of " + name + " is not a single expression over a slice receiver: no ordering assumed")
		}
	}
	// slices.SortFunc(s, cmp): afterwards cmp(s[i], s[j]) <= 0 for i < j.
	if (name == "slices.SortFunc" || name == "slices.SortStableFunc") && len(a) > 1 && a[1].Fn != nil && a[1].Fn.Lit != nil {
		if t, ok := e.cmpOverElements(st, a[1].Fn, arr, n, s.GT); ok {
			e.assume(st, t)
		} else {
			e.note("comparison function of " + name + " is not a single expression: no ordering assumed")
		}
	}
	// a comparison closure may be called any number of times
	for _, v := range a[1:] {
		if v.Fn != nil && v.Fn.Lit != nil {
			assigned, heapW := e.assignedIn(v.Fn.Lit.Body)
			e.havocVars(st, assigned, heapW, "comparison closure")
		}
	}
	e.trust("in-place permutation contract of " + name)
	return Val{}
}

func (e *Exec) isLvalue(x ast.Expr) bool {
	switch y := ast.Unparen(x).(type) {
	case *ast.Ident:
		return y.Name != "_"
	case *ast.SelectorExpr:
		_, ok := e.info().Selections[y]
		return ok && e.isLvalue(y.X) || ok
	case *ast.IndexExpr:
		return e.isLvalue(y.X)
	case *ast.StarExpr:
		return true
	}
	return false
}

// borrow: `f(&lv)` / `lv.M()` with a pointer receiver lend the callee a temporary cell holding lv's value;
// when the call returns the cell is copied back into lv. Exact unless the callee retains the pointer and
// writes through it after returning (or reaches lv by another route during the call).
type borrow struct {
	lv   ast.Expr
	ref  Term
	elem types.Type
	path []int // embedded-field path below lv (promoted pointer-receiver methods)
}

func (e *Exec) call(st *State, x *ast.CallExpr) Val {
	mark := len(e.borrows)
	saved := e.borrowArgs
	e.borrowArgs = map[ast.Expr]bool{}
	for _, a := range x.Args {
		if u, ok := ast.Unparen(a).(*ast.UnaryExpr); ok && u.Op == token.AND {
			if _, isLit := ast.Unparen(u.X).(*ast.CompositeLit); !isLit {
				e.borrowArgs[u] = true
			}
		}
	}
	e.borrowCall = x
	res := e.call0(st, x)
	e.borrowArgs = saved
	mine := append([]borrow(nil), e.borrows[mark:]...)
	e.borrows = e.borrows[:mark]
	if len(mine) > 0 && !st.dead {
		q := e.quiet
		e.quiet = true
		for _, b := range mine {
			hn, hs := e.ptrHeap(b.elem)
			cur := Val{T: Select(e.heapRead(st, hn, hs), b.ref), GT: b.elem}
			if len(b.path) > 0 {
				base := e.ev(st, b.lv)
				cur = e.updatePath(st, base, b.path, cur, b.lv.Pos())
				if _, isPtr := base.GT.Underlying().(*types.Pointer); isPtr {
					continue
				}
			}
			e.store(st, b.lv, cur)
		}
		e.quiet = q
	}
	return res
}

func (e *Exec) call0(st *State, x *ast.CallExpr) Val {
	info := e.info()
	if tv, ok := info.Types[x.Fun]; ok && tv.IsType() {
		v := e.ev(st, x.Args[0])
		return e.conversion(st, v, tv.Type, x.Pos())
	}
	fun := ast.Unparen(x.Fun)
	if ix, ok := fun.(*ast.IndexExpr); ok {
		if tv, ok := info.Types[ix.X]; ok {
			if _, isSig := tv.Type.Underlying().(*types.Signature); isSig {
				fun = ix.X
			}
		}
	}
	if ix, ok := fun.(*ast.IndexListExpr); ok {
		fun = ix.X
	}
	switch f := fun.(type) {
	case *ast.Ident:
		switch obj := info.Uses[f].(type) {
		case *types.Builtin:
			return e.builtin(st, f.Name, x)
		case *types.Func:
			args := e.evArgs(st, x, obj.Type().(*types.Signature))
			return e.callFunc(st, obj, nil, args, x)
		case *types.Var:
			fv := e.objVal(st, obj, f.Pos())
			if fv.Fn == nil {
				if c := e.lookupClosure(obj); c != nil {
					fv.Fn = c
				}
			}
			sig := obj.Type().Underlying().(*types.Signature)
			args := e.evArgs(st, x, sig)
			e.closureSiteChecks(st, f.Name, sig, args, x)
			return e.callValue(st, fv, sig, args, x)
		}
	case *ast.FuncLit:
		fv := e.ev(st, f)
		sig := info.TypeOf(f).(*types.Signature)
		args := e.evArgs(st, x, sig)
		return e.callValue(st, fv, sig, args, x)
	case *ast.SelectorExpr:
		if sel, ok := info.Selections[f]; ok {
			switch sel.Kind() {
			case types.MethodVal:
				fn := sel.Obj().(*types.Func)
				if isNoEffect(fn.Origin().FullName()) {
					for _, a := range x.Args {
						e.ev(st, a)
					}
					e.lockAcquired(st, fn.Origin().FullName(), x)
					return e.zeroResults(fn.Type().(*types.Signature))
				}
				recv := e.ev(st, f.X)
				// walk embedded fields to the method's receiver
				path := sel.Index()
				if len(path) > 1 {
					recv = e.fieldPath(st, recv, path[:len(path)-1], f.Pos())
				}
				e.recvLv, e.recvPath = f.X, nil
				if len(path) > 1 {
					e.recvPath = path[:len(path)-1]
				}
				recv = e.adjustRecv(st, recv, fn, f.Pos())
				e.recvLv = nil
				args := e.evArgs(st, x, fn.Type().(*types.Signature))
				return e.callFunc(st, fn, &recv, args, x)
			case types.FieldVal:
				fv := e.selector(st, f)
				sig := fv.GT.Underlying().(*types.Signature)
				args := e.evArgs(st, x, sig)
				return e.callValue(st, fv, sig, args, x)
			}
		}
		switch obj := info.Uses[f.Sel].(type) {
		case *types.Func:
			args := e.evArgs(st, x, obj.Type().(*types.Signature))
			return e.callFunc(st, obj, nil, args, x)
		case *types.Var:
			fv := e.objVal(st, obj, f.Pos())
			sig := obj.Type().Underlying().(*types.Signature)
			args := e.evArgs(st, x, sig)
			return e.callValue(st, fv, sig, args, x)
		}
	}
	// calling the result of another expression
	if t := info.TypeOf(x.Fun); t != nil {
		if sig, ok := t.Underlying().(*types.Signature); ok {
			fv := e.ev(st, x.Fun)
			args := e.evArgs(st, x, sig)
			return e.callValue(st, fv, sig, args, x)
		}
	}
	e.fail(x.Pos(), "unsupported call form %T", x.Fun)
	return Val{}
}

func (e *Exec) adjustRecv(st *State, recv Val, fn *types.Func, pos token.Pos) Val {
	sig := fn.Type().(*types.Signature)
	if sig.Recv() == nil {
		return recv
	}
	rt := sig.Recv().Type()
	_, wantPtr := rt.Underlying().(*types.Pointer)
	pt, havePtr := recv.GT.Underlying().(*types.Pointer)
	if _, isIface := rt.Underlying().(*types.Interface); isIface {
		return recv
	}
	switch {
	case wantPtr && !havePtr:
		// method with pointer receiver on an addressable value: the value is passed by reference.
		// Modelled by a temporary cell; writes through it are not propagated back (noted).
		r := e.alloc(st, recv, types.NewPointer(recv.GT))
		if e.recvLv != nil && e.assignable(e.recvLv) {
			e.borrows = append(e.borrows, borrow{lv: e.recvLv, ref: r.T, elem: recv.GT, path: e.recvPath})
		} else {
			e.note("pointer-receiver method called on a value that is not a variable, field or element: callee writes to the receiver are not propagated")
		}
		return r
	case !wantPtr && havePtr:
		return e.deref(st, recv, pt, pos)
	}
	return recv
}

// evArgs evaluates call arguments, packing variadic ones into a slice.
func (e *Exec) evArgs(st *State, x *ast.CallExpr, sig *types.Signature) []Val {
	var args []Val
	if len(x.Args) == 1 && sig.Params().Len() > 1 {
		// f(g()) with multi-value g
		v := e.ev(st, x.Args[0])
		if len(v.Tuple) > 0 {
			return v.Tuple
		}
		args = append(args, v)
	} else {
		for _, a := range x.Args {
			args = append(args, e.ev(st, a))
		}
	}
	np := sig.Params().Len()
	for i := range args {
		if i < np && !(sig.Variadic() && i >= np-1) {
			args[i] = e.convertTo(st, args[i], sig.Params().At(i).Type())
		}
	}
	if sig.Variadic() && !x.Ellipsis.IsValid() {
		vt := sig.Params().At(np - 1).Type().(*types.Slice)
		el := e.sr.sortOf(vt.Elem())
		arr := e.constArray(SInt, el, vt.Elem())
		n := int64(0)
		for i := np - 1; i < len(args); i++ {
			v := e.convertTo(st, args[i], vt.Elem())
			arr = Store(arr, IntLit(n), v.T)
			n++
		}
		packed := Val{T: MkSlc(el, arr, IntLit(n), BoolLit(n > 0)), GT: vt}
		if np-1 <= len(args) {
			args = append(args[:np-1:np-1], packed)
		}
	}
	return args
}

func (e *Exec) conversion(st *State, v Val, t types.Type, pos token.Pos) Val {
	if isNilVal(v) {
		return e.zero(t)
	}
	from := v.GT
	if from == nil {
		return Val{T: v.T, GT: t}
	}
	fs, ts := v.T.Sort, e.sr.sortOf(t)
	if _, ok := t.Underlying().(*types.Interface); ok {
		return e.convertTo(st, v, t)
	}
	if fs == ts {
		if fs == SInt {
			if lo, hi, ok := intRange(t); ok {
				if flo, fhi, ok2 := intRange(from); !ok2 || flo != lo || fhi != hi {
					if !(v.T.S != "" && isLiteral(v.T.S)) {
						e.note("integer conversion treated as value-preserving (no wrap-around)")
						f := e.frames[0]
						if f.contract != nil && f.contract.Opts["overflow"] == "on" {
							e.sideOblige(st, "conv-range", And(Le(T(SInt, lo), v.T), Le(v.T, T(SInt, hi))), pos)
						}
					}
				}
			}
		}
		return Val{T: v.T, GT: t, Orig: v.Orig}
	}
	switch {
	case fs == SInt && ts == SString:
		return Val{T: App(SString, "str.from_code", v.T), GT: t}
	case isSlcSort(fs) && ts == SString:
		fn := e.sc.Fun("bytes2str", []string{fs}, SString)
		r := App(SString, fn, v.T)
		e.sc.Assert(Eq(App(SInt, "str.len", r), SlcLen(v.T)))
		return Val{T: r, GT: t}
	case fs == SString && isSlcSort(ts):
		if len(v.T.S) > 60 && e.sc.binders == 0 {
			nm := e.sc.Fresh("convstr", SString) // the axiom below uses the string in a quantifier pattern
			e.sc.Assert(Eq(nm, v.T))
			v.T = nm
		}
		fn := e.sc.Fun("str2bytes:"+ts, []string{SString}, ts)
		r := T(ts, fmt.Sprintf("(%s %s)", fn, v.T.S))
		e.sc.Assert(Eq(SlcLen(r), App(SInt, "str.len", v.T)))
		e.sc.Assert(T(SBool, fmt.Sprintf("(forall ((i Int)) (! (=> (and (<= 0 i) (< i (str.len %s))) (= (select (slc_arr %s) i) (str.to_code (str.at %s i)))) :pattern ((select (slc_arr %s) i))))", v.T.S, r.S, v.T.S, r.S)))
		// string([]byte(s)) == s
		back := e.sc.Fun("bytes2str", []string{ts}, SString)
		e.sc.Assert(Eq(App(SString, back, r), v.T))
		return Val{T: r, GT: t}
	case fs == SInt && ts == "Real":
		return Val{T: App("Real", "to_real", v.T), GT: t}
	case fs == "Real" && ts == SInt:
		// Go truncates towards zero; SMT to_int is floor
		neg := App(SInt, "-", App(SInt, "to_int", App("Real", "-", v.T)))
		return Val{T: Ite(App(SBool, ">=", v.T, T("Real", "0.0")), App(SInt, "to_int", v.T), neg), GT: t}
	}
	e.fail(pos, "unsupported conversion %s -> %s", from, t)
	return Val{}
}

func isLiteral(s string) bool {
	if s == "" {
		return false
	}
	for _, c := range s {
		if c < '0' || c > '9' {
			return false
		}
	}
	return true
}

func (e *Exec) builtin(st *State, name string, x *ast.CallExpr) Val {
	info := e.info()
	intT := types.Typ[types.Int]
	switch name {
	case "len", "cap":
		v := e.ev(st, x.Args[0])
		return e.lenOf(st, v, x.Pos())
	case "append":
		base := e.ev(st, x.Args[0])
		e.builtinSiteChecks(st, "append", []Val{base}, x)
		rt := info.TypeOf(x)
		stt := rt.Underlying().(*types.Slice)
		if isNilVal(base) {
			base = e.zero(rt)
		}
		el := slcElem(e.sr.sortOf(rt))
		if x.Ellipsis.IsValid() {
			other := e.ev(st, x.Args[1])
			if other.T.Sort == SString {
				other = e.conversion(st, other, rt, x.Pos())
			}
			e.appendMayAlias(st, base, x.Pos())
			return e.appendSlices(st, base, other, rt)
		}
		arr, n := SlcArr(base.T), SlcLen(base.T)
		e.lenFact(st, base.T)
		cnt := 0
		for _, a := range x.Args[1:] {
			v := e.convertTo(st, e.ev(st, a), stt.Elem())
			arr = Store(arr, Add(n, IntLit(int64(cnt))), v.T)
			cnt++
		}
		nn := SlcNN(base.T)
		nl := n
		if cnt > 0 {
			nn = True
			nl = Add(n, IntLit(int64(cnt)))
		}
		// append may write in place into spare capacity shared with base's origin: the result keeps the origin
		if cnt > 0 {
			e.appendMayAlias(st, base, x.Pos())
		}
		return Val{T: MkSlc(el, arr, nl, nn), GT: rt, Orig: base.Orig}
	case "make":
		t := info.TypeOf(x)
		switch u := t.Underlying().(type) {
		case *types.Slice:
			n := e.ev(st, x.Args[1])
			e.sideOblige(st, "make-len", Ge(n.T, IntLit(0)), x.Pos())
			el := e.sr.sortOf(u.Elem())
			return Val{T: MkSlc(el, e.constArray(SInt, el, u.Elem()), n.T, True), GT: t}
		case *types.Map:
			return e.newMap(st, u, t)
		case *types.Chan:
			// a fresh channel: a reference nobody held before, hence not closed
			r := e.sc.Fresh("chan", SInt)
			cnt, ok := st.ghosts["alloc"]
			if !ok {
				cnt = Val{T: e.sc.Const("alloc0", SInt)}
				e.sc.Assert(Gt(cnt.T, IntLit(0)))
			}
			e.sc.Assert(Implies(st.pc, Eq(r, cnt.T)))
			st.ghosts["alloc"] = Val{T: Add(cnt.T, IntLit(1))}
			e.closed0()
			return Val{T: r, GT: t}
		}
	case "new":
		t := info.TypeOf(x)
		pt := t.Underlying().(*types.Pointer)
		return e.alloc(st, e.zero(pt.Elem()), t)
	case "copy":
		dst := e.ev(st, x.Args[0])
		src := e.ev(st, x.Args[1])
		if src.T.Sort == SString {
			src = e.conversion(st, src, dst.GT, x.Pos())
		}
		n := e.sc.Fresh("ncopy", SInt)
		dl, sl := SlcLen(dst.T), SlcLen(src.T)
		e.lenFact(st, dst.T)
		e.lenFact(st, src.T)
		e.sc.Assert(Eq(n, Ite(Le(dl, sl), dl, sl)))
		el := slcElem(dst.T.Sort)
		arr := e.sc.Fresh("copied", ArraySort(SInt, el))
		e.sc.Assert(T(SBool, fmt.Sprintf("(forall ((i Int)) (! (= (select %s i) (ite (and (<= 0 i) (< i %s)) (select %s i) (select %s i))) :pattern ((select %s i))))",
			arr.S, n.S, SlcArr(src.T).S, SlcArr(dst.T).S, arr.S)))
		nv := Val{T: MkSlc(el, arr, dl, SlcNN(dst.T)), GT: dst.GT, Orig: dst.Orig}
		e.recordSliceWrite(st, dst, x.Pos())
		e.store(st, x.Args[0], nv)
		return Val{T: n, GT: intT}
	case "delete":
		m := e.ev(st, x.Args[0])
		k := e.ev(st, x.Args[1])
		mt := m.GT.Underlying().(*types.Map)
		e.mapDelete(st, m, mt, e.convertTo(st, k, mt.Key()))
		return Val{}
	case "panic":
		var pargs []Val
		for _, a := range x.Args {
			pargs = append(pargs, e.ev(st, a))
		}
		e.builtinSiteChecks(st, "panic", pargs, x)
		f := e.top()
		f.panics = append(f.panics, st.clone())
		st.dead = true
		return Val{}
	case "min", "max":
		acc := e.ev(st, x.Args[0])
		for _, a := range x.Args[1:] {
			b := e.ev(st, a)
			var c Term
			if acc.T.Sort == SString {
				c = App(SBool, "str.<=", acc.T, b.T)
			} else {
				c = Le(acc.T, b.T)
			}
			if name == "max" {
				acc = Val{T: Ite(c, b.T, acc.T), GT: info.TypeOf(x)}
			} else {
				acc = Val{T: Ite(c, acc.T, b.T), GT: info.TypeOf(x)}
			}
		}
		return acc
	case "close":
		ch := e.ev(st, x.Args[0])
		e.ghostEvent(st, "close", ch)
		cl, ok := st.ghosts["closed"]
		if !ok {
			cl = Val{T: e.closed0()}
		}
		e.sideOblige(st, "close-closed", Not(Select(cl.T, ch.T)), x.Pos())
		st.ghosts["closed"] = Val{T: Store(cl.T, ch.T, True)}
		return Val{}
	case "recover":
		return Val{T: IntLit(0), GT: info.TypeOf(x)}
	case "clear":
		e.fail(x.Pos(), "clear is not supported")
	}
	e.fail(x.Pos(), "unsupported builtin %s", name)
	return Val{}
}

func (e *Exec) lenOf(st *State, v Val, pos token.Pos) Val {
	intT := types.Typ[types.Int]
	switch {
	case v.T.Sort == SString:
		return Val{T: App(SInt, "str.len", v.T), GT: intT}
	case isSlcSort(v.T.Sort):
		e.lenFact(st, v.T)
		return Val{T: SlcLen(v.T), GT: intT}
	}
	if v.GT != nil {
		switch u := v.GT.Underlying().(type) {
		case *types.Array:
			return Val{T: IntLit(u.Len()), GT: intT}
		case *types.Map:
			fn := e.sc.Fun("maplen:"+e.sr.mapValSort(u), []string{e.sr.mapValSort(u)}, SInt)
			r := App(SInt, fn, e.mapValue(st, v, u))
			e.sc.Assert(Ge(r, IntLit(0)))
			return Val{T: r, GT: intT}
		case *types.Pointer:
			if a, ok := u.Elem().Underlying().(*types.Array); ok {
				return Val{T: IntLit(a.Len()), GT: intT}
			}
		}
	}
	e.fail(pos, "len of unsupported value")
	return Val{}
}

func (e *Exec) appendSlices(st *State, a, b Val, rt types.Type) Val {
	el := slcElem(a.T.Sort)
	arr := e.sc.Fresh("appended", ArraySort(SInt, el))
	e.lenFact(st, a.T)
	e.lenFact(st, b.T)
	if e.sc.binders > 0 {
		e.fail(token.NoPos, "append of two slices under a quantifier binder (give the callee a pure contract)")
	}
	e.sc.Assert(T(SBool, fmt.Sprintf("(forall ((i Int)) (! (= (select %s i) (ite (< i %s) (select %s i) (select %s (- i %s)))) :pattern ((select %s i))))",
		arr.S, SlcLen(a.T).S, SlcArr(a.T).S, SlcArr(b.T).S, SlcLen(a.T).S, arr.S)))
	// the same fact seen from the second operand (so that a goal about b[j] finds the appended element)
	e.sc.Assert(T(SBool, fmt.Sprintf("(forall ((j Int)) (! (=> (<= 0 j) (= (select %s (+ %s j)) (select %s j))) :pattern ((select %s j))))",
		arr.S, SlcLen(a.T).S, SlcArr(b.T).S, SlcArr(b.T).S)))
	return Val{T: MkSlc(el, arr, Add(SlcLen(a.T), SlcLen(b.T)), Or(SlcNN(a.T), Gt(SlcLen(b.T), IntLit(0)))), GT: rt, Orig: a.Orig}
}

// callValue calls a function value (closure, function reference, or unknown).
func (e *Exec) callValue(st *State, fv Val, sig *types.Signature, args []Val, x *ast.CallExpr) Val {
	if fv.Fn != nil {
		c := fv.Fn
		if c.Lit != nil {
			return e.callClosure(st, c, sig, args, x)
		}
		if c.Obj != nil {
			return e.callFunc(st, c.Obj, nil, args, x)
		}
	}
	if fc := e.frames[0].contract; fc != nil && fc.Opts["callbacks"] == "pure" {
		// function-typed parameters are assumed not to touch the verified state (stated in the contract)
		e.trust("callback " + e.src(x.Fun) + " assumed not to touch verified state (opt callbacks=pure)")
		return e.opaqueCall(st, "function value "+e.src(x.Fun), sig, args, false)
	}
	return e.opaqueCall(st, "function value "+e.src(x.Fun), sig, args, true)
}

func (e *Exec) callClosure(st *State, c *Closure, sig *types.Signature, args []Val, x *ast.CallExpr) Val {
	// a local closure may have its own contract, keyed Outer.lit#n
	if fc := e.prog.contractFor(c.Pkg.PkgPath, c.Name); fc != nil && e.closureIsRecursive(c) {
		return e.callByContract(st, fc, sig, nil, args, c.Name, x)
	}
	for _, s := range e.stack {
		if s == c.Name {
			e.fail(c.Lit.Pos(), "recursive closure %s needs a contract", c.Name)
		}
	}
	return e.inline(st, c.Pkg, c.Lit, c.Lit.Type, c.Lit.Body, nil, sig, nil, args, c.Name, x)
}

func (e *Exec) closureIsRecursive(c *Closure) bool { return true }

func contractKey(fn *types.Func) (pkgPath, key string) {
	fn = fn.Origin()
	if fn.Pkg() != nil {
		pkgPath = fn.Pkg().Path()
	}
	sig := fn.Type().(*types.Signature)
	if r := sig.Recv(); r != nil {
		t := r.Type()
		if p, ok := t.(*types.Pointer); ok {
			t = p.Elem()
		}
		name := ""
		switch n := types.Unalias(t).(type) {
		case *types.Named:
			name = n.Obj().Name()
		default:
			name = t.String()
		}
		return pkgPath, "(" + name + ")." + fn.Name()
	}
	return pkgPath, fn.Name()
}

func (e *Exec) callFunc(st *State, fn *types.Func, recv *Val, args []Val, x *ast.CallExpr) Val {
	res := e.callFunc0(st, fn, recv, args, x)
	e.postCallTracks(st, fn, recv, args, res, x)
	return res
}

func (e *Exec) callFunc0(st *State, fn *types.Func, recv *Val, args []Val, x *ast.CallExpr) Val {
	name := fn.Origin().FullName()
	sig := fn.Type().(*types.Signature)
	// a call of a generic function: use the signature as instantiated at this call (results have concrete types)
	if x != nil && sig.TypeParams() != nil && e.inContract == 0 {
		if t, ok := e.info().TypeOf(x.Fun).(*types.Signature); ok && t.TypeParams() == nil && t.Params().Len() == sig.Params().Len() {
			sig = t
		}
	}
	e.callsiteChecks(st, fn, recv, args, x)
	if isNoEffect(name) {
		return e.zeroResults(sig)
	}
	if isWalk(name) && len(args) == 2 && args[1].Fn != nil && args[1].Fn.Lit != nil && x != nil {
		return e.walkModel(st, name, sig, args, x)
	}
	if isFatal(name) {
		f := e.top()
		f.panics = append(f.panics, st.clone())
		st.dead = true
		return e.zeroResults(sig)
	}
	if m, ok := stdModels[name]; ok {
		all := args
		if recv != nil {
			all = append([]Val{*recv}, args...)
		}
		e.trust("model of " + name)
		return m(e, st, all, x)
	}
	pkgPath, key := contractKey(fn)
	if fc := e.prog.contractFor(pkgPath, key); fc != nil {
		return e.callByContract(st, fc, sig, recv, args, shortName(pkgPath)+"."+key, x)
	}
	if pureStd[name] {
		e.trust("pure function " + name)
		return e.pureCall(st, name, sig, recv, args)
	}
	// body available?
	// generic bodies are written over type parameters; inlining them at a concrete instantiation would mix sorts
	osig, _ := fn.Origin().Type().(*types.Signature)
	generic := osig != nil && (osig.TypeParams() != nil || osig.RecvTypeParams() != nil)
	noInline := false
	if tc := e.frames[0].contract; tc != nil && tc.Opts["inline"] == "off" && e.inContract == 0 {
		noInline = true // the contract only constrains call structure: callees without contracts stay opaque
	}
	if decl, pkg := e.prog.findDecl(fn); decl != nil && decl.Body != nil && !generic && !noInline {
		full := shortName(pkgPath) + "." + key
		depthOK := len(e.frames) < 8
		rec := false
		for _, s := range e.stack {
			if s == full {
				rec = true
			}
		}
		if depthOK && !rec {
			e.inlined[full]++
			if res, ok := e.tryInline(st, pkg, decl, sig, recv, args, full, x); ok {
				return res
			}
			// the callee's body left the supported subset: fall back to an opaque call (sound: arbitrary
			// results, all heaps havocked)
			delete(e.inlined, full)
			all := args
			if recv != nil {
				all = append([]Val{*recv}, args...)
			}
			return e.opaqueCall(st, name+" (body outside the supported subset)", sig, all, true)
		}
	}
	all := args
	if recv != nil {
		all = append([]Val{*recv}, args...)
	}
	inRepo := strings.Contains(pkgPath, "thought-machine/please")
	reach := inRepo || hasRefArg(all)
	if !reach && x != nil {
		// an argument converted to an interface parameter (json.Unmarshal(data, &v), DecodeElement(&v, ..)) still
		// hands the callee a reference into the repository's heap: decide on the argument's own static type
		for _, a := range x.Args {
			if t := e.info().TypeOf(a); t != nil && typeTouchesRepo(t, 0) {
				reach = true
			}
		}
	}
	return e.opaqueCall(st, name, sig, all, reach)
}

func shortName(pkgPath string) string {
	if i := strings.LastIndex(pkgPath, "/"); i >= 0 {
		return pkgPath[i+1:]
	}
	return pkgPath
}

// hasRefArg reports whether a callee outside the repository could reach the repository's heap through one
// of its arguments: a reference to a type declared in the repository, or an unknown function value.
// (Closures literals are analysed separately; interfaces and pointers of library types are assumed not to
// lead back into repository state — recorded as a trusted assumption.)
func hasRefArg(args []Val) bool {
	for _, a := range args {
		if a.GT == nil {
			continue
		}
		if a.Fn != nil && a.Fn.Lit != nil {
			continue
		}
		if typeTouchesRepo(a.GT, 0) {
			return true
		}
	}
	return false
}

func typeTouchesRepo(t types.Type, depth int) bool {
	if depth > 6 || t == nil {
		return false
	}
	switch u := types.Unalias(t).(type) {
	case *types.Named:
		inRepo := u.Obj().Pkg() != nil && strings.Contains(u.Obj().Pkg().Path(), "thought-machine/please")
		switch un := u.Underlying().(type) {
		case *types.Struct:
			return false // passed by value
		case *types.Interface:
			return inRepo
		default:
			return typeTouchesRepo(un, depth+1)
		}
	case *types.Pointer:
		return refElemTouchesRepo(u.Elem(), depth+1)
	case *types.Map:
		return refElemTouchesRepo(u.Elem(), depth+1) || refElemTouchesRepo(u.Key(), depth+1)
	case *types.Slice:
		return typeTouchesRepo(u.Elem(), depth+1)
	case *types.Chan:
		return refElemTouchesRepo(u.Elem(), depth+1)
	case *types.Signature:
		return true
	case *types.Interface:
		return false
	}
	return false
}

// refElemTouchesRepo: the pointee itself is mutable, so a repository struct behind a reference counts.
func refElemTouchesRepo(t types.Type, depth int) bool {
	if n, ok := types.Unalias(t).(*types.Named); ok && n.Obj().Pkg() != nil && strings.Contains(n.Obj().Pkg().Path(), "thought-machine/please") {
		return true
	}
	return typeTouchesRepo(t, depth)
}

func (e *Exec) zeroResults(sig *types.Signature) Val {
	switch sig.Results().Len() {
	case 0:
		return Val{}
	case 1:
		return e.zero(sig.Results().At(0).Type())
	}
	var t []Val
	for i := 0; i < sig.Results().Len(); i++ {
		t = append(t, e.zero(sig.Results().At(i).Type()))
	}
	return Val{Tuple: t}
}

func (e *Exec) freshResults(hint string, sig *types.Signature) Val {
	switch sig.Results().Len() {
	case 0:
		return Val{}
	case 1:
		return e.freshVal(hint, sig.Results().At(0).Type())
	}
	var t []Val
	for i := 0; i < sig.Results().Len(); i++ {
		t = append(t, e.freshVal(hint, sig.Results().At(i).Type()))
	}
	return Val{Tuple: t}
}

// opaqueCall: nothing is known about the callee. Results are arbitrary; heaps are havocked if the callee
// could reach them.
func (e *Exec) opaqueCall(st *State, name string, sig *types.Signature, args []Val, havoc bool) Val {
	e.note("opaque call: " + name)
	// closures handed to an unknown callee may run any number of times
	for _, a := range args {
		if a.Fn != nil && a.Fn.Lit != nil {
			assigned, heapW := e.assignedIn(a.Fn.Lit.Body)
			e.havocVars(st, assigned, heapW, "closure passed to opaque call "+name)
			havoc = true
		}
	}
	if havoc {
		e.havocHeaps(st, "opaque call "+name)
	}
	return e.freshResults("r_"+shortName(name), sig)
}

// pureCall: the result is an uninterpreted function of the arguments (and of pointees of pointer arguments).
func (e *Exec) pureCall(st *State, name string, sig *types.Signature, recv *Val, args []Val) Val {
	all := args
	if recv != nil {
		all = append([]Val{*recv}, args...)
	}
	var terms []Term
	var sorts []string
	for _, a := range all {
		t := a.T
		if isNilVal(a) {
			t = IntLit(0)
		}
		if a.GT != nil {
			if pt, ok := a.GT.Underlying().(*types.Pointer); ok {
				if _, isStruct := pt.Elem().Underlying().(*types.Struct); isStruct {
					hn, hs := e.ptrHeap(pt.Elem())
					t = Select(e.heapRead(st, hn, hs), a.T)
				}
			}
			if mt, ok := a.GT.Underlying().(*types.Map); ok {
				t = e.mapValue(st, a, mt)
			}
		}
		terms = append(terms, t)
		sorts = append(sorts, t.Sort)
	}
	mk := func(i int, rt types.Type) Val {
		rs := e.sr.sortOf(rt)
		fn := e.sc.Fun(fmt.Sprintf("pure:%s/%d:%s", name, i, strings.Join(sorts, ",")), sorts, rs)
		var t Term
		if len(terms) == 0 {
			t = T(rs, fn)
		} else {
			t = App(rs, fn, terms...)
		}
		v := Val{T: t, GT: rt}
		e.typeFactsGlobal(v)
		e.pureRangeAxiom(fn, sorts, rs, rt)
		return v
	}
	switch sig.Results().Len() {
	case 0:
		return Val{}
	case 1:
		return mk(0, sig.Results().At(0).Type())
	}
	var tup []Val
	for i := 0; i < sig.Results().Len(); i++ {
		tup = append(tup, mk(i, sig.Results().At(i).Type()))
	}
	return Val{Tuple: tup}
}

// callByContract: assert requires, havoc what the callee may modify, assume ensures.
func (e *Exec) callByContract(st *State, fc *FuncContract, sig *types.Signature, recv *Val, args []Val, name string, x *ast.CallExpr) Val {
	e.trust("contract of " + name + map[bool]string{true: " (assumed, body not verified)", false: ""}[fc.Assumed])
	env := &cenv{vals: map[string]Val{}}
	if recv != nil && sig.Recv() != nil {
		env.vals[sig.Recv().Name()] = *recv
	}
	if recv != nil && sig.Recv() == nil {
		env.vals["recv"] = *recv
	}
	for i := 0; i < sig.Params().Len() && i < len(args); i++ {
		env.vals[sig.Params().At(i).Name()] = args[i]
	}
	// free variables of a closure's contract are the caller's variables of that name
	if x != nil && len(e.frames) > 0 {
		env.resolve = e.loopEnv(st, x.Pos(), nil).resolve
	}
	old := st.clone()
	env.old = old
	env.pkgPath = fc.PkgPath()
	for _, r := range fc.Requires {
		if e.quiet || e.inContract > 0 {
			break // inside an inlined callee or a contract expression: not the code under verification
		}
		if tc := e.frames[0].contract; tc != nil && tc.Opts["precall"] == "off" {
			break // the caller's contract only carries call-site clauses; callee preconditions are not claimed
		}
		if fc.mentionsOwnGhost(r) {
			continue // initial value of the callee's own ghost state: nothing a caller can establish
		}
		g := e.evContract(st, r.Expr, env)
		pos := token.NoPos
		if x != nil {
			pos = x.Pos()
		}
		e.frames[0].loopN += 0
		e.oblige(st, fmt.Sprintf("%s#pre:%s.%s@%s", e.fnName, name, r.Name, e.relLine(pos)), "pre@call", r.Props, g, pos)
	}
	var res Val
	if fc.Pure {
		res = e.pureCall(st, "contract:"+name, sig, recv, args)
	} else {
		if !(fc.ModSet && len(fc.Modifies) == 0) {
			e.havocModifies(st, fc, env, name)
		}
		res = e.freshResults("r_"+shortName(name), sig)
	}
	// declared aliasing: a returned slice that shares its backing array with an argument keeps that argument's origin
	if len(fc.Aliases) > 0 {
		n := sig.Results().Len()
		for i := 0; i < n; i++ {
			for _, rn := range []string{fmt.Sprintf("result%d", i), sig.Results().At(i).Name(), map[bool]string{true: "result"}[n == 1]} {
				pn, ok := fc.Aliases[rn]
				if !ok || rn == "" {
					continue
				}
				if src, ok := env.vals[pn]; ok && len(src.Orig) > 0 {
					if n == 1 {
						res.Orig = unionOrig(res.Orig, src.Orig)
					} else {
						res.Tuple[i].Orig = unionOrig(res.Tuple[i].Orig, src.Orig)
					}
				}
			}
		}
	}
	// bind results
	bindResults(env, sig, res)
	for _, en := range fc.Ensures {
		if e.sc.binders > 0 {
			break // under a binder or in a spec body the arguments are bound variables: no per-call facts
		}
		if fc.mentionsOwnGhost(en) {
			continue // about the callee's own ghost state (calls it made): means nothing to a caller
		}
		g := e.evContract(st, en.Expr, env)
		e.assume(st, g)
	}
	return res
}

func bindResults(env *cenv, sig *types.Signature, res Val) {
	n := sig.Results().Len()
	get := func(i int) Val {
		if n == 1 {
			return res
		}
		return res.Tuple[i]
	}
	for i := 0; i < n; i++ {
		if nm := sig.Results().At(i).Name(); nm != "" && nm != "_" {
			env.vals[nm] = get(i)
		}
		env.vals[fmt.Sprintf("result%d", i)] = get(i)
	}
	if n == 1 {
		env.vals["result"] = res
	}
}

// inline executes a callee body in the caller's state.
func (e *Exec) inline(st *State, pkg *packages.Package, node ast.Node, ft *ast.FuncType, body *ast.BlockStmt, recvList *ast.FieldList,
	sig *types.Signature, recv *Val, args []Val, name string, x *ast.CallExpr) Val {
	before := make(map[types.Object]bool, len(st.vars))
	for k := range st.vars {
		before[k] = true
	}
	isLit := false
	if _, ok := node.(*ast.FuncLit); ok {
		isLit = true
	}
	fr := &callFrame{name: name, pkg: pkg, node: node, sig: sig, closures: map[types.Object]*Closure{}}
	info := pkg.TypesInfo
	if recvList != nil && len(recvList.List) > 0 && len(recvList.List[0].Names) > 0 && recv != nil {
		if obj := info.Defs[recvList.List[0].Names[0]]; obj != nil {
			st.vars[obj] = *recv
		}
	}
	i := 0
	for _, fld := range ft.Params.List {
		if len(fld.Names) == 0 {
			i++
			continue
		}
		for _, nm := range fld.Names {
			if obj := info.Defs[nm]; obj != nil && i < len(args) {
				v := args[i]
				v = e.convertTo(st, v, obj.Type())
				st.vars[obj] = v
				if v.Fn != nil {
					fr.closures[obj] = v.Fn
				}
			}
			i++
		}
	}
	if ft.Results != nil {
		for _, fld := range ft.Results.List {
			if len(fld.Names) == 0 {
				fr.results = append(fr.results, nil)
				continue
			}
			for _, nm := range fld.Names {
				obj := info.Defs[nm]
				fr.results = append(fr.results, obj)
				if obj != nil {
					st.vars[obj] = e.zero(obj.Type())
				}
			}
		}
	}
	// closures of enclosing frames stay visible
	if isLit {
		for k, v := range e.top().closures {
			fr.closures[k] = v
		}
	}
	savedQuiet := e.quiet
	if !isLit {
		e.quiet = true
		e.inlineDepth++
		defer func() { e.inlineDepth-- }()
	}
	e.frames = append(e.frames, fr)
	e.stack = append(e.stack, name)
	e.block(st, body.List)
	if !st.dead {
		// fall off the end
		var vals []Val
		for _, r := range fr.results {
			if r != nil {
				vals = append(vals, st.vars[r])
			}
		}
		fr.returns = append(fr.returns, &retRec{st: st.clone(), vals: vals, ndefer: -1})
		st.dead = true
	}
	// deferred calls run at every exit
	for _, rr := range fr.returns {
		nd := len(fr.defers)
		if rr.ndefer >= 0 && rr.ndefer < nd {
			nd = rr.ndefer // a return before a defer statement does not run it
		}
		for j := nd - 1; j >= 0; j-- {
			fr.defers[j](rr.st)
		}
		// named results may have been changed by deferred closures
		for k, r := range fr.results {
			if r != nil && k < len(rr.vals) {
				rr.vals[k] = rr.st.vars[r]
			}
		}
	}
	e.stack = e.stack[:len(e.stack)-1]
	e.frames = e.frames[:len(e.frames)-1]
	e.quiet = savedQuiet
	// panics propagate to the caller
	caller := e.top()
	caller.panics = append(caller.panics, fr.panics...)
	// merge returns
	var states []*State
	for _, rr := range fr.returns {
		if !rr.st.dead {
			states = append(states, rr.st)
		}
	}
	nres := sig.Results().Len()
	var res Val
	if len(states) == 0 {
		st.dead = true
		st.pc = False
		return e.zeroResults(sig)
	}
	merged := states[0]
	var mvals []Val
	for _, rr := range fr.returns {
		if rr.st == states[0] {
			mvals = append([]Val{}, rr.vals...)
		}
	}
	for _, rr := range fr.returns[0:] {
		if rr.st.dead || rr.st == states[0] {
			continue
		}
		// merged.pc decides
		for k := 0; k < nres && k < len(mvals) && k < len(rr.vals); k++ {
			mvals[k] = e.mergeVal(merged.pc, mvals[k], rr.vals[k], "ret")
		}
		merged = e.merge2(merged, rr.st)
	}
	e.setState(st, merged)
	for k := range st.vars {
		if !before[k] {
			delete(st.vars, k)
		}
	}
	switch nres {
	case 0:
		res = Val{}
	case 1:
		if len(mvals) == 1 {
			res = mvals[0]
			res.GT = sig.Results().At(0).Type()
		} else {
			res = e.zeroResults(sig)
		}
	default:
		for k := range mvals {
			mvals[k].GT = sig.Results().At(k).Type()
		}
		res = Val{Tuple: mvals}
	}
	return res
}

// pureRangeAxiom states once per pure function symbol that its results are well-typed Go values (slice
// lengths are non-negative, nil slices are empty, sized integers are in range) for ALL arguments, so that
// applications under quantifiers (which get no per-term facts) are covered too.
func (e *Exec) pureRangeAxiom(fn string, sorts []string, rs string, rt types.Type) {
	if len(sorts) == 0 {
		return
	}
	if e.pureTyped == nil {
		e.pureTyped = map[string]bool{}
	}
	if e.pureTyped[fn] {
		return
	}
	e.pureTyped[fn] = true
	var binders, vars []string
	for i, so := range sorts {
		binders = append(binders, fmt.Sprintf("(|pa?%d| %s)", i, so))
		vars = append(vars, fmt.Sprintf("|pa?%d|", i))
	}
	app := "(" + fn + " " + strings.Join(vars, " ") + ")"
	var fact string
	switch u := rt.Underlying().(type) {
	case *types.Slice:
		if !isSlcSort(rs) {
			return
		}
		fact = fmt.Sprintf("(and (>= (slc_len %s) 0) (=> (not (slc_nn %s)) (= (slc_len %s) 0)))", app, app, app)
	case *types.Basic:
		if u.Info()&types.IsInteger == 0 || rs != SInt {
			return
		}
		lo, hi, ok := intRange(rt)
		if !ok {
			return
		}
		fact = fmt.Sprintf("(and (<= %s %s) (<= %s %s))", lo, app, app, hi)
	default:
		return
	}
	e.sc.Assert(T(SBool, fmt.Sprintf("(forall (%s) (! %s :pattern (%s)))", strings.Join(binders, " "), fact, app)))
}

// lessOverIndices builds  forall i<j<n: !less(j, i)  for a less function whose body is `return <expr>`.
func (e *Exec) lessOverIndices(st *State, c *Closure, n Term) (t Term, ok bool) {
	lit := c.Lit
	if len(lit.Body.List) != 1 || lit.Type.Params == nil {
		return Term{}, false
	}
	ret, isRet := lit.Body.List[0].(*ast.ReturnStmt)
	if !isRet || len(ret.Results) != 1 {
		return Term{}, false
	}
	var params []types.Object
	for _, f := range lit.Type.Params.List {
		for _, nm := range f.Names {
			params = append(params, c.Pkg.TypesInfo.Defs[nm])
		}
	}
	if len(params) != 2 || params[0] == nil || params[1] == nil {
		return Term{}, false
	}
	defer func() {
		if r := recover(); r != nil {
			if _, isUns := r.(unsupported); !isUns {
				panic(r)
			}
			t, ok = Term{}, false
		}
	}()
	e.sc.counter++
	iv := T(SInt, fmt.Sprintf("|si?%d|", e.sc.counter))
	jv := T(SInt, fmt.Sprintf("|sj?%d|", e.sc.counter))
	st2 := e.specState(st)
	intT := types.Typ[types.Int]
	// less(j, i) with i < j
	st2.vars[params[0]] = Val{T: jv, GT: intT}
	st2.vars[params[1]] = Val{T: iv, GT: intT}
	e.sc.binders++
	e.inContract++
	fr := &callFrame{name: c.Name, pkg: c.Pkg, node: lit, closures: map[types.Object]*Closure{}}
	for k, v := range e.top().closures {
		fr.closures[k] = v
	}
	e.frames = append(e.frames, fr)
	v := e.ev(st2, ret.Results[0])
	e.frames = e.frames[:len(e.frames)-1]
	e.inContract--
	e.sc.binders--
	if v.T.Sort != SBool {
		return Term{}, false
	}
	pair := fmt.Sprintf("(forall ((%s Int) (%s Int)) (=> (and (<= 0 %s) (< %s %s) (< %s %s)) (not %s)))",
		iv.S, jv.S, iv.S, iv.S, jv.S, jv.S, n.S, v.T.S)
	// the adjacent instance, stated separately (it is what loops over the sorted slice need)
	adjacent := fmt.Sprintf("(forall ((%s Int)) (=> (and (< 0 %s) (< %s %s)) (let ((%s (- %s 1))) (not %s))))",
		jv.S, jv.S, jv.S, n.S, iv.S, jv.S, v.T.S)
	return T(SBool, "(and "+pair+" "+adjacent+")"), true
}

// lessMethodOverIndices: like lessOverIndices for sort.Sort(x): x's static type is a named slice type whose
// Less(i, j int) bool method is `return <expr>`; the receiver is bound to the value of x after the sort.
func (e *Exec) lessMethodOverIndices(st *State, arg ast.Expr, n Term) (t Term, ok bool) {
	at := e.info().TypeOf(arg)
	if at == nil {
		return Term{}, false
	}
	named, isNamed := types.Unalias(at).(*types.Named)
	if !isNamed {
		return Term{}, false
	}
	if _, isSlice := named.Underlying().(*types.Slice); !isSlice {
		return Term{}, false
	}
	var less *types.Func
	for i := 0; i < named.NumMethods(); i++ {
		if m := named.Method(i); m.Name() == "Less" {
			less = m
		}
	}
	if less == nil {
		return Term{}, false
	}
	decl, pkg := e.prog.findDecl(less)
	if decl == nil || decl.Body == nil || len(decl.Body.List) != 1 || decl.Recv == nil || len(decl.Recv.List) != 1 || len(decl.Recv.List[0].Names) != 1 {
		return Term{}, false
	}
	ret, isRet := decl.Body.List[0].(*ast.ReturnStmt)
	if !isRet || len(ret.Results) != 1 {
		return Term{}, false
	}
	var params []types.Object
	for _, f := range decl.Type.Params.List {
		for _, nm := range f.Names {
			params = append(params, pkg.TypesInfo.Defs[nm])
		}
	}
	recvObj := pkg.TypesInfo.Defs[decl.Recv.List[0].Names[0]]
	if len(params) != 2 || params[0] == nil || params[1] == nil || recvObj == nil {
		return Term{}, false
	}
	defer func() {
		if r := recover(); r != nil {
			if _, isUns := r.(unsupported); !isUns {
				panic(r)
			}
			t, ok = Term{}, false
		}
	}()
	cur := e.ev(st, arg) // the slice after the reordering
	e.sc.counter++
	iv := T(SInt, fmt.Sprintf("|si?%d|", e.sc.counter))
	jv := T(SInt, fmt.Sprintf("|sj?%d|", e.sc.counter))
	st2 := e.specState(st)
	intT := types.Typ[types.Int]
	st2.vars[recvObj] = Val{T: cur.T, GT: named}
	st2.vars[params[0]] = Val{T: jv, GT: intT}
	st2.vars[params[1]] = Val{T: iv, GT: intT}
	e.sc.binders++
	e.inContract++
	fr := &callFrame{name: less.FullName(), pkg: pkg, node: decl, closures: map[types.Object]*Closure{}}
	e.frames = append(e.frames, fr)
	v := e.ev(st2, ret.Results[0])
	e.frames = e.frames[:len(e.frames)-1]
	e.inContract--
	e.sc.binders--
	if v.T.Sort != SBool {
		return Term{}, false
	}
	pair := fmt.Sprintf("(forall ((%s Int) (%s Int)) (=> (and (<= 0 %s) (< %s %s) (< %s %s)) (not %s)))",
		iv.S, jv.S, iv.S, iv.S, jv.S, jv.S, n.S, v.T.S)
	adjacent := fmt.Sprintf("(forall ((%s Int)) (=> (and (< 0 %s) (< %s %s)) (let ((%s (- %s 1))) (not %s))))",
		jv.S, jv.S, jv.S, n.S, iv.S, jv.S, v.T.S)
	return T(SBool, "(and "+pair+" "+adjacent+")"), true
}

// cmpOverElements builds  forall i<j<n: cmp(arr[i], arr[j]) <= 0  (and its adjacent instance) for a comparison
// function whose body is `return <expr>`.
func (e *Exec) cmpOverElements(st *State, c *Closure, arr, n Term, sliceT types.Type) (t Term, ok bool) {
	lit := c.Lit
	if len(lit.Body.List) != 1 || lit.Type.Params == nil {
		return Term{}, false
	}
	ret, isRet := lit.Body.List[0].(*ast.ReturnStmt)
	if !isRet || len(ret.Results) != 1 {
		return Term{}, false
	}
	st0, isSlice := sliceT.Underlying().(*types.Slice)
	if !isSlice {
		return Term{}, false
	}
	var params []types.Object
	for _, f := range lit.Type.Params.List {
		for _, nm := range f.Names {
			params = append(params, c.Pkg.TypesInfo.Defs[nm])
		}
	}
	if len(params) != 2 || params[0] == nil || params[1] == nil {
		return Term{}, false
	}
	defer func() {
		if r := recover(); r != nil {
			if _, isUns := r.(unsupported); !isUns {
				panic(r)
			}
			t, ok = Term{}, false
		}
	}()
	e.sc.counter++
	iv := T(SInt, fmt.Sprintf("|si?%d|", e.sc.counter))
	jv := T(SInt, fmt.Sprintf("|sj?%d|", e.sc.counter))
	st2 := e.specState(st)
	st2.vars[params[0]] = Val{T: Select(arr, iv), GT: st0.Elem()}
	st2.vars[params[1]] = Val{T: Select(arr, jv), GT: st0.Elem()}
	e.sc.binders++
	e.inContract++
	fr := &callFrame{name: c.Name, pkg: c.Pkg, node: lit, closures: map[types.Object]*Closure{}}
	for k, v := range e.top().closures {
		fr.closures[k] = v
	}
	e.frames = append(e.frames, fr)
	v := e.ev(st2, ret.Results[0])
	e.frames = e.frames[:len(e.frames)-1]
	e.inContract--
	e.sc.binders--
	if v.T.Sort != SInt {
		return Term{}, false
	}
	pair := fmt.Sprintf("(forall ((%s Int) (%s Int)) (=> (and (<= 0 %s) (< %s %s) (< %s %s)) (<= %s 0)))",
		iv.S, jv.S, iv.S, iv.S, jv.S, jv.S, n.S, v.T.S)
	adjacent := fmt.Sprintf("(forall ((%s Int)) (=> (and (< 0 %s) (< %s %s)) (let ((%s (- %s 1))) (<= %s 0))))",
		jv.S, jv.S, jv.S, n.S, iv.S, jv.S, v.T.S)
	return T(SBool, "(and "+pair+" "+adjacent+")"), true
}

// appendMayAlias: with `opt appendalias=on`, appending to a slice that may have spare capacity counts as an
// in-place write to the backing array it shares with its origin (two appends to the same base then alias
// each other). Slices known to be full (slices.Clip, slices.Clone) reallocate instead.
func (e *Exec) appendMayAlias(st *State, base Val, pos token.Pos) {
	tc := e.frames[0].contract
	if tc == nil || tc.Opts["appendalias"] != "on" || base.Full || len(base.Orig) == 0 {
		return
	}
	e.recordSliceWrite(st, base, pos)
}
