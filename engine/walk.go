package main

// Iteration contracts for directory walks and call-site assertions.

import (
	"fmt"
	"go/ast"
	"go/types"
	"strings"
)

func isWalk(name string) bool {
	switch name {
	case "github.com/thought-machine/please/src/fs.Walk", "github.com/thought-machine/please/src/fs.WalkMode",
		"path/filepath.Walk", "path/filepath.WalkDir":
		return true
	}
	return false
}

// walkModel is the assumed iteration contract of the directory walkers: the callback runs on an arbitrary
// finite sequence of entries lying under the root; SkipDir only prunes; any other error stops the walk and
// is returned. The callback body is executed as a loop body, cut by the invariants keyed "walk <callee>".
func (e *Exec) walkModel(st *State, name string, sig *types.Signature, args []Val, x *ast.CallExpr) Val {
	e.trust("iteration contract of " + name + " (arbitrary finite entry sequence under the root, stop at first non-SkipDir error)")
	cb := args[1]
	cbSig := sig.Params().At(1).Type().Underlying().(*types.Signature)
	hdr := "walk " + e.src(x.Fun)
	ord, _ := e.loopKeyFor(x, hdr)
	li := &loopInfo{key: ord, invs: e.findInvs(ord, hdr), pos: x.Pos()}
	li.assigned, li.heapW = e.assignedIn(cb.Fn.Lit.Body)
	li.heapNames = e.takeHeapNames()
	errT := errorType()
	werr := e.synthVar("walkerr", errT)
	st.vars[werr] = Val{T: IntLit(0), GT: errT}
	li.assigned[werr] = true
	root := args[0]
	skip := e.initialHeap("G:path/filepath.SkipDir", SInt)
	e.sc.Assert(Not(Eq(skip, IntLit(0))))
	env := func(s *State) *cenv { return e.loopEnv(s, x.Pos(), nil) }
	f := e.top()
	e.loopCore(st, li, "", env,
		func(s *State) Term {
			return And(Eq(s.vars[werr].T, IntLit(0)), e.sc.Fresh("walkmore", SBool))
		},
		func(s *State) {
			var cargs []Val
			for i := 0; i < cbSig.Params().Len(); i++ {
				v := e.freshVal("walk_"+cbSig.Params().At(i).Name(), cbSig.Params().At(i).Type())
				if i == 0 && v.T.Sort == SString && root.T.Sort == SString {
					e.assume(s, Or(Eq(v.T, root.T), App(SBool, "str.prefixof", App(SString, "str.++", root.T, StrLit("/")), v.T)))
				}
				cargs = append(cargs, v)
			}
			r := e.callClosure(s, cb.Fn, cbSig, cargs, x)
			if s.dead {
				return
			}
			stop := And(Not(Eq(r.T, IntLit(0))), Not(Eq(r.T, skip)))
			brk := e.fork(s, stop)
			if !brk.dead {
				brk.vars[werr] = Val{T: r.T, GT: errT}
				jf := f.jumps[len(f.jumps)-1]
				jf.breaks = append(jf.breaks, brk)
			}
			e.setState(s, e.fork(s, Not(stop)))
		},
		func(s *State) {})
	res := st.vars[werr]
	delete(st.vars, werr)
	return Val{T: res.T, GT: errT}
}

// callsiteChecks emits the call-site assertions of the function under verification that name this callee.
func (e *Exec) callsiteChecks(st *State, fn *types.Func, recv *Val, args []Val, x *ast.CallExpr) {
	if x == nil || e.suppressSites() || e.inContract > 0 || st.dead {
		return
	}
	fc := e.frames[0].contract
	if fc == nil {
		return
	}
	pkgPath, key := contractKey(fn)
	// ghost flags for called("callee") in this contract are set AFTER the assertions of this call have been
	// evaluated: inside a clause, called("f") speaks about the calls made before this one
	defer func() {
		for _, tracked := range fc.trackedCallees() {
			if tracked == key || tracked == shortName(pkgPath)+"."+key {
				st.ghosts["called:"+tracked] = Val{T: True}
			}
		}
	}()
	var tracks []trackUpd
	for _, c := range fc.Sites {
		if c.LoopKey != key && c.LoopKey != shortName(pkgPath)+"."+key {
			continue
		}
		extra := map[string]Val{}
		sig := fn.Type().(*types.Signature)
		for i := 0; i < sig.Params().Len() && i < len(args); i++ {
			if n := sig.Params().At(i).Name(); n != "" && n != "_" {
				extra["arg_"+n] = args[i]
			}
			extra[fmt.Sprintf("arg%d", i)] = args[i]
		}
		if recv != nil {
			extra["arg_recv"] = *recv
		}
		extra["idx"] = Val{T: IntLit(-1), GT: types.Typ[types.Int]} // not inside a range loop
		if n := len(e.idxStack); n > 0 {
			if v, ok := st.vars[e.idxStack[n-1]]; ok {
				extra["idx"] = v
			}
		}
		env := e.loopEnv(st, x.Pos(), extra)
		if c.Kind == "trackresult" {
			continue // assigned after the call (postCallTracks)
		}
		if c.Kind == "track" || c.Kind == "collect" {
			tracks = append(tracks, trackUpd{c, env})
			continue
		}
		g := e.evContract(st, c.Expr, env)
		name := fmt.Sprintf("%s#callsite:%s.%s@%s", e.fnName, strings.TrimPrefix(c.LoopKey, "*"), c.Name, e.relLine(x.Pos()))
		o := e.oblige(st, name, "callsite", c.Props, g, x.Pos())
		if o != nil {
			o.Clause = c.Src
		}
	}
	// tracked ghosts are assigned after the assertions of this call have been evaluated
	for _, t := range tracks {
		e.inContract++
		v := e.cev(st, t.c.Expr, t.env)
		e.inContract--
		if t.c.Kind == "collect" {
			cur, ok := e.ghostSet(st, t.c.Name)
			if ok && cur.T.Sort == ArraySort(v.T.Sort, SBool) {
				st.ghosts["set:"+t.c.Name] = Val{T: Store(cur.T, v.T, True)}
			} else {
				e.fail(x.Pos(), "contract: collect %s: element sort %s does not match the declared element type", t.c.Name, v.T.Sort)
			}
			continue
		}
		st.ghosts["g:"+t.c.Name] = v
	}
}

// ghostSet returns the current value of a monotone ghost set declared by a `collect` clause (its entry value
// is an arbitrary set).
func (e *Exec) ghostSet(st *State, name string) (Val, bool) {
	if g, ok := st.ghosts["set:"+name]; ok {
		return g, true
	}
	fc := e.frames[0].contract
	if fc == nil {
		return Val{}, false
	}
	for _, c := range fc.Sites {
		if c.Kind == "collect" && c.Name == name {
			t := e.resolveTypeStr(&cenv{vals: map[string]Val{}, pkgPath: fc.Pkg}, c.Region)
			return Val{T: e.sc.Const("set0:"+name, ArraySort(e.sr.sortOf(t), SBool))}, true
		}
	}
	return Val{}, false
}

type trackUpd struct {
	c   *Clause
	env *cenv
}

// trackedGhost resolves a ghost variable declared by a `track` clause (its entry value is arbitrary).
func (e *Exec) trackedGhost(st *State, name string) (Val, bool) {
	if g, ok := st.ghosts["g:"+name]; ok {
		return g, true
	}
	fc := e.frames[0].contract
	if fc == nil {
		return Val{}, false
	}
	if name == "completedrange" {
		return Val{T: IntLit(-1), GT: types.Typ[types.Int]}, true // no range loop has run to completion yet
	}
	for _, c := range fc.Sites {
		if (c.Kind == "track" || c.Kind == "trackresult") && c.Name == name {
			t := e.resolveTypeStr(&cenv{vals: map[string]Val{}, pkgPath: fc.Pkg}, c.Region)
			return Val{T: e.sc.Const("ghost0:"+name, e.sr.sortOf(t)), GT: t}, true
		}
	}
	return Val{}, false
}

// builtinSiteChecks: call-site clauses keyed by a builtin (`callsite panic name: P` states when a panic statement
// may be reached; arg0 is the value panicked with).
func (e *Exec) builtinSiteChecks(st *State, key string, args []Val, x *ast.CallExpr) {
	if x == nil || e.suppressSites() || e.inContract > 0 || st.dead {
		return
	}
	fc := e.frames[0].contract
	if fc == nil {
		return
	}
	for _, c := range fc.Sites {
		if c.LoopKey != key || c.Kind != "callsite" {
			continue
		}
		extra := map[string]Val{}
		for i, a := range args {
			// the builtin takes `any`: the clause sees the boxed value (unbox(arg0, T) / dyntype(arg0, T))
			extra[fmt.Sprintf("arg%d", i)] = e.convertTo(st, a, types.Universe.Lookup("any").Type())
		}
		extra["idx"] = Val{T: IntLit(-1), GT: types.Typ[types.Int]}
		if n := len(e.idxStack); n > 0 {
			if v, ok := st.vars[e.idxStack[n-1]]; ok {
				extra["idx"] = v
			}
		}
		env := e.loopEnv(st, x.Pos(), extra)
		g := e.evContract(st, c.Expr, env)
		name := fmt.Sprintf("%s#callsite:%s.%s@%s", e.fnName, key, c.Name, e.relLine(x.Pos()))
		if o := e.oblige(st, name, "callsite", c.Props, g, x.Pos()); o != nil {
			o.Clause = c.Src
		}
	}
}
