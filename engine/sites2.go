package main

import (
	"fmt"
	"go/ast"
	"go/types"
	"regexp"
	"strings"

	"golang.org/x/tools/go/packages"
)

// specState: a call made while evaluating a contract expression must not change the state the expression is
// evaluated in (a callee's frame effects, allocations or ghost flags): it runs on a copy. Spec-body states
// (heap-parameterised) are shared so that their heap parameters are still collected.
func (e *Exec) specState(st *State) *State {
	if st.specHeaps != nil {
		return st
	}
	return st.clone()
}

// tryInline inlines a callee body; if the body uses a construct outside the supported subset the partial
// execution is rolled back and ok=false is returned (the caller then treats the call as opaque).
func (e *Exec) tryInline(st *State, pkg *packages.Package, decl *ast.FuncDecl, sig *types.Signature, recv *Val, args []Val, full string, x *ast.CallExpr) (res Val, ok bool) {
	snap := st.clone()
	nFrames, nStack, nObl := len(e.frames), len(e.stack), len(e.obls)
	quiet, binders, inC := e.quiet, e.sc.binders, e.inContract
	top := e.top()
	nRet, nPan, nJ := len(top.returns), len(top.panics), len(top.jumps)
	defer func() {
		if r := recover(); r != nil {
			if _, isUns := r.(unsupported); !isUns {
				panic(r)
			}
			e.frames = e.frames[:nFrames]
			e.stack = e.stack[:nStack]
			e.obls = e.obls[:nObl]
			e.quiet, e.sc.binders, e.inContract = quiet, binders, inC
			top.returns, top.panics, top.jumps = top.returns[:nRet], top.panics[:nPan], top.jumps[:nJ]
			*st = *snap
			res, ok = Val{}, false
		}
	}()
	return e.inline(st, pkg, decl, decl.Type, decl.Body, decl.Recv, sig, recv, args, full, x), true
}

func containsCall(x ast.Expr) bool {
	found := false
	ast.Inspect(x, func(n ast.Node) bool {
		if _, ok := n.(*ast.CallExpr); ok {
			found = true
		}
		return !found
	})
	return found
}

// postCallTracks applies `callsite f trackresult g T: e` clauses: ghost g is assigned e after the call, with
// `result` (result0, result1, ...) bound to what the call returned.
func (e *Exec) postCallTracks(st *State, fn *types.Func, recv *Val, args []Val, res Val, x *ast.CallExpr) {
	if x == nil || e.suppressSites() || e.inContract > 0 || st.dead || len(e.frames) == 0 {
		return
	}
	fc := e.frames[0].contract
	if fc == nil {
		return
	}
	pkgPath, key := contractKey(fn)
	for _, c := range fc.Sites {
		if c.Kind != "trackresult" || (c.LoopKey != key && c.LoopKey != shortName(pkgPath)+"."+key) {
			continue
		}
		sig := fn.Type().(*types.Signature)
		extra := map[string]Val{}
		for i := 0; i < sig.Params().Len() && i < len(args); i++ {
			if n := sig.Params().At(i).Name(); n != "" && n != "_" {
				extra["arg_"+n] = args[i]
			}
		}
		if recv != nil {
			extra["arg_recv"] = *recv
		}
		env := e.loopEnv(st, x.Pos(), extra)
		if sig.Results().Len() > 0 {
			bindResults(env, sig, res)
		}
		e.inContract++
		v := e.cev(st, c.Expr, env)
		e.inContract--
		st.ghosts["g:"+c.Name] = v
	}
}

// goSiteChecks: a `go f(args)` statement is a call site of f for call-site clauses (the call itself is not
// executed: goroutines are outside the sequential model).
func (e *Exec) goSiteChecks(st *State, call *ast.CallExpr) {
	info := e.info()
	var fn *types.Func
	var recv *Val
	switch f := ast.Unparen(call.Fun).(type) {
	case *ast.Ident:
		fn, _ = info.Uses[f].(*types.Func)
	case *ast.SelectorExpr:
		if sel, ok := info.Selections[f]; ok && sel.Kind() == types.MethodVal {
			fn, _ = sel.Obj().(*types.Func)
			r := e.ev(st, f.X)
			recv = &r
		} else {
			fn, _ = info.Uses[f.Sel].(*types.Func)
		}
	}
	var args []Val
	for _, a := range call.Args {
		args = append(args, e.ev(st, a))
	}
	if fn != nil {
		e.callsiteChecks(st, fn, recv, args, call)
	}
}

// closureSiteChecks: `callsite <localFuncVar> name: P` is checked where the function under contract calls one
// of its local function values by name (and sets the called("<name>") ghost flag).
func (e *Exec) closureSiteChecks(st *State, varName string, sig *types.Signature, args []Val, x *ast.CallExpr) {
	if x == nil || e.suppressSites() || e.inContract > 0 || st.dead || len(e.frames) != 1 {
		return
	}
	fc := e.frames[0].contract
	if fc == nil {
		return
	}
	for _, tracked := range fc.trackedCallees() {
		if tracked == varName {
			st.ghosts["called:"+tracked] = Val{T: True}
		}
	}
	for _, c := range fc.Sites {
		if c.LoopKey != varName || c.Kind == "track" || c.Kind == "trackresult" {
			continue
		}
		extra := map[string]Val{}
		for i := 0; i < sig.Params().Len() && i < len(args); i++ {
			if n := sig.Params().At(i).Name(); n != "" && n != "_" {
				extra["arg_"+n] = args[i]
			}
			extra[fmt.Sprintf("arg%d", i)] = args[i]
		}
		env := e.loopEnv(st, x.Pos(), extra)
		g := e.evContract(st, c.Expr, env)
		name := fmt.Sprintf("%s#callsite:%s.%s@%s", e.fnName, varName, c.Name, e.relLine(x.Pos()))
		o := e.oblige(st, name, "callsite", c.Props, g, x.Pos())
		if o != nil {
			o.Clause = c.Src
		}
	}
}

// usesGhost: does any clause of the contract mention the identifier?
func (fc *FuncContract) usesGhost(name string) bool {
	has := func(cs []*Clause) bool {
		for _, c := range cs {
			if strings.Contains(c.Src, name) {
				return true
			}
		}
		return false
	}
	return has(fc.Requires) || has(fc.Ensures) || has(fc.Invs) || has(fc.Sites)
}

// mentionsOwnGhost: the clause talks about ghost state private to one execution of the function (called(..)
// flags, tracked ghosts).
func (fc *FuncContract) mentionsOwnGhost(c *Clause) bool {
	if strings.Contains(c.Src, "called(") || strings.Contains(c.Src, "collected(") {
		return true
	}
	for _, s := range fc.Sites {
		if (s.Kind == "track" || s.Kind == "trackresult") && identRe(s.Name).MatchString(c.Src) {
			return true
		}
	}
	return false
}

func identRe(name string) *regexp.Regexp {
	return regexp.MustCompile(`(^|[^A-Za-z0-9_.])` + regexp.QuoteMeta(name) + `($|[^A-Za-z0-9_])`)
}
