package main

// Return-site assertions and the called("callee") ghost flags.

import (
	"fmt"
	"go/ast"
	"go/types"
	"regexp"
	"strings"
)

var calledRe = regexp.MustCompile(`called\("([^"]+)"\)`)

// trackedCallees lists the callee keys mentioned as called("...") anywhere in the contract.
func (fc *FuncContract) trackedCallees() []string {
	if fc.tracked != nil {
		return fc.tracked
	}
	seen := map[string]bool{}
	out := []string{}
	scan := func(cs []*Clause) {
		for _, c := range cs {
			for _, m := range calledRe.FindAllStringSubmatch(c.Src, -1) {
				if !seen[m[1]] {
					seen[m[1]] = true
					out = append(out, m[1])
				}
			}
		}
	}
	scan(fc.Requires)
	scan(fc.Ensures)
	scan(fc.Invs)
	scan(fc.Sites)
	fc.tracked = out
	return out
}

// returnsiteChecks emits the `returnsite` assertions at a return statement of the function under contract.
func (e *Exec) returnsiteChecks(st *State, s *ast.ReturnStmt, vals []Val) {
	if e.suppressSites() || e.inContract > 0 || st.dead {
		return
	}
	fc := e.frames[0].contract
	if fc == nil {
		return
	}
	for _, c := range fc.Sites {
		if c.LoopKey != "return" {
			continue
		}
		// the values being returned: result (one result) or result0, result1, ...
		extra := map[string]Val{}
		if len(vals) == 1 {
			extra["result"] = vals[0]
		}
		for i, v := range vals {
			extra[fmt.Sprintf("result%d", i)] = v
		}
		env := e.loopEnv(st, s.Pos(), extra)
		g := e.evContract(st, c.Expr, env)
		name := fmt.Sprintf("%s#returnsite:%s@%s", e.fnName, c.Name, e.relLine(s.Pos()))
		o := e.oblige(st, name, "returnsite", c.Props, g, s.Pos())
		if o != nil {
			o.Clause = c.Src
		}
	}
}

// closed0 is the set of channels closed at function entry. References at or above the allocation counter
// do not exist yet, so they are not in it (this is what makes a channel from make() open).
func (e *Exec) closed0() Term {
	c := e.sc.Const("closed0", ArraySort(SInt, SBool))
	if !e.sc.declared["axiom:closed0"] {
		e.sc.declared["axiom:closed0"] = true
		a0 := e.sc.Const("alloc0", SInt)
		e.sc.Assert(Gt(a0, IntLit(0)))
		e.sc.Assert(T(SBool, fmt.Sprintf("(forall ((c Int)) (! (=> (>= c %s) (not (select %s c))) :pattern ((select %s c))))", a0.S, c.S, c.S)))
		e.sc.Assert(Not(Select(c, IntLit(0))))
	}
	return c
}

// sendsiteChecks: `callsite send ...` assertions are checked at every channel send of the function under
// contract (arg_value is the value sent); the ghost flag called("send") records that a send happened.
func (e *Exec) sendsiteChecks(st *State, s *ast.SendStmt, v Val) {
	if e.suppressSites() || e.inContract > 0 || st.dead {
		return
	}
	fc := e.frames[0].contract
	if fc == nil {
		return
	}
	for _, tracked := range fc.trackedCallees() {
		if tracked == "send" {
			st.ghosts["called:send"] = Val{T: True}
		}
	}
	for _, c := range fc.Sites {
		if c.LoopKey != "send" {
			continue
		}
		env := e.loopEnv(st, s.Pos(), map[string]Val{"arg_value": v})
		g := e.evContract(st, c.Expr, env)
		name := fmt.Sprintf("%s#sendsite:%s@%s", e.fnName, c.Name, e.relLine(s.Pos()))
		o := e.oblige(st, name, "callsite", c.Props, g, s.Pos())
		if o != nil {
			o.Clause = c.Src
		}
	}
}

// lockAcquired models interference at a lock acquisition (opt atomic=lock): between two critical sections
// other threads may have changed the protected state arbitrarily, subject to the lock invariants (the
// contract's requires clauses, which the option declares to be invariants of the lock). `old` is re-anchored
// at the acquisition, so postconditions describe the critical section that takes effect (the linearization
// point) rather than the state at function entry.
func (e *Exec) lockAcquired(st *State, name string, x *ast.CallExpr) {
	if !strings.HasSuffix(name, ".Lock") && !strings.HasSuffix(name, ".RLock") {
		return
	}
	if e.suppressSites() || e.inContract > 0 || st.dead || len(e.frames) != 1 {
		return
	}
	fr := e.frames[0]
	fc := fr.contract
	if fc == nil || fc.Opts["atomic"] != "lock" {
		return
	}
	e.havocHeaps(st, "interference before lock acquisition")
	if cl, ok := st.ghosts["closed"]; ok {
		// other threads may have closed more channels (never re-opened any)
		n := e.sc.Fresh("closed", cl.T.Sort)
		e.sc.Assert(T(SBool, fmt.Sprintf("(forall ((c Int)) (! (=> (select %s c) (select %s c)) :pattern ((select %s c))))", cl.T.S, n.S, n.S)))
		st.ghosts["closed"] = Val{T: n}
	}
	env := e.loopEnv(st, x.Pos(), nil)
	for _, r := range fc.Requires {
		e.assume(st, e.evContract(st, r.Expr, env))
	}
	a := st.clone()
	a.anchor = nil
	st.anchor = a
	e.trust("lock acquisition re-establishes the lock invariants (requires clauses) after arbitrary interference; old() is anchored at the last acquisition")
}

// packVariadic packs the trailing arguments of a variadic callee into a slice, as evArgs does for calls
// in code, so that contract expressions and code build the same terms.
func (e *Exec) packVariadic(st *State, sig *types.Signature, args []Val) []Val {
	if sig == nil || !sig.Variadic() {
		return args
	}
	np := sig.Params().Len()
	if len(args) == np {
		if _, ok := args[np-1].GT.(*types.Slice); ok || isSlcSort(args[np-1].T.Sort) {
			return args // already a slice (f(xs...) form is not distinguished in contracts)
		}
	}
	if len(args) < np-1 {
		return args
	}
	vt := sig.Params().At(np - 1).Type().(*types.Slice)
	el := e.sr.sortOf(vt.Elem())
	arr := e.constArray(SInt, el, vt.Elem())
	n := int64(0)
	for i := np - 1; i < len(args); i++ {
		v := e.convertTo(st, args[i], vt.Elem())
		arr = Store(arr, IntLit(n), v.T)
		n++
	}
	packed := Val{T: MkSlc(el, arr, IntLit(n), BoolLit(n > 0)), GT: vt}
	return append(append([]Val{}, args[:np-1]...), packed)
}
