package main

// Whole-package site rules (e.g. every write to a field obeys a transition relation).

func verifySite(prog *Program, pkgPath string, s *SiteRule) *FuncResult {
	return &FuncResult{Pkg: pkgPath, Key: "site:" + s.Name, Name: shortName(pkgPath) + ".site:" + s.Name, Err: "site rules not implemented"}
}
