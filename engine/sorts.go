package main

// Mapping from Go types to SMT sorts.

import (
	"crypto/sha1"
	"fmt"
	"go/types"
	"strings"
)

type sortReg struct {
	tagTypes map[int]types.Type // type tag -> concrete type
	sc       *Script
	structs  map[string]*structInfo // sort name -> info
	inProg   map[string]bool
	opaque   map[string]string
	typeTags map[string]int // dynamic type tags for interfaces
}

type structInfo struct {
	Sort   string
	Ctor   string
	Fields []fieldInfo
	GT     *types.Struct
	Named  types.Type
}

type fieldInfo struct {
	Name string
	Sel  string
	Sort string
	GT   types.Type
}

func newSortReg(sc *Script) *sortReg {
	return &sortReg{sc: sc, structs: map[string]*structInfo{}, inProg: map[string]bool{}, opaque: map[string]string{}, typeTags: map[string]int{}}
}

func shortPkg(p *types.Package) string {
	if p == nil {
		return ""
	}
	path := p.Path()
	if i := strings.LastIndex(path, "/"); i >= 0 {
		// keep two trailing components for disambiguation of e.g. remote/fs vs fs
		rest := path[:i]
		if j := strings.LastIndex(rest, "/"); j >= 0 && (strings.HasSuffix(rest, "/remote") || strings.HasSuffix(rest, "/parse")) {
			return rest[j+1:] + "_" + path[i+1:]
		}
		return path[i+1:]
	}
	return path
}

func typeKey(t types.Type) string {
	return types.TypeString(t, func(p *types.Package) string { return shortPkg(p) })
}

func (r *sortReg) opaqueSort(t types.Type) string {
	k := typeKey(t)
	if s, ok := r.opaque[k]; ok {
		return s
	}
	name := "|U_" + sanitize(k) + "|"
	r.opaque[k] = name
	r.sc.Decl("sort:"+name, fmt.Sprintf("(declare-sort %s 0)", name))
	return name
}

// sortOf returns the SMT sort for a Go type.
func (r *sortReg) sortOf(t types.Type) string {
	switch u := t.(type) {
	case *types.Alias:
		return r.sortOf(types.Unalias(u))
	case *types.Named:
		if st, ok := u.Underlying().(*types.Struct); ok {
			// a few library struct types are better left opaque
			return r.structSort(u, st)
		}
		if _, ok := u.Underlying().(*types.Interface); ok {
			return SInt
		}
		return r.sortOf(u.Underlying())
	case *types.Basic:
		switch {
		case u.Info()&types.IsBoolean != 0:
			return SBool
		case u.Info()&types.IsInteger != 0:
			return SInt
		case u.Info()&types.IsString != 0:
			return SString
		case u.Info()&types.IsFloat != 0:
			return "Real"
		case u.Kind() == types.UnsafePointer || u.Kind() == types.UntypedNil:
			return SInt
		}
		return r.opaqueSort(t)
	case *types.Pointer:
		return SInt
	case *types.Slice:
		return SlcSort(r.sortOf(u.Elem()))
	case *types.Array:
		return ArraySort(SInt, r.sortOf(u.Elem()))
	case *types.Map:
		return SInt // reference into the map heap
	case *types.Struct:
		return r.structSort(t, u)
	case *types.Interface:
		return SInt
	case *types.Chan:
		return SInt
	case *types.Signature:
		return SInt
	case *types.TypeParam:
		return r.opaqueSort(t)
	case *types.Tuple:
		return r.opaqueSort(t)
	}
	return r.opaqueSort(t)
}

// mapValSort returns the sort of the value a Go map reference points to.
func (r *sortReg) mapValSort(m *types.Map) string {
	return MapSort(r.sortOf(m.Key()), r.sortOf(m.Elem()))
}

func (r *sortReg) structSort(named types.Type, st *types.Struct) string {
	key := typeKey(named)
	if len(key) > 120 {
		// anonymous struct types print with all their fields and tags: keep the name short but unique
		key = fmt.Sprintf("anon_%x", sha1.Sum([]byte(key)))[:21] + "_" + key[:40]
	}
	name := "|S_" + sanitize(key) + "|"
	if _, ok := r.structs[name]; ok {
		return name
	}
	if r.inProg[name] {
		// recursive occurrence: opaque
		return r.opaqueSort(named)
	}
	// Library structs with unexported internals (sync.Mutex, atomic.*, time.Time...) are opaque.
	if n, ok := named.(*types.Named); ok && n.Obj().Pkg() != nil {
		p := n.Obj().Pkg().Path()
		if !strings.Contains(p, "thought-machine/please") && !strings.HasPrefix(p, "govc") && !modelledLibraryStructs(p) {
			return r.opaqueSort(named)
		}
	}
	r.inProg[name] = true
	si := &structInfo{Sort: name, Ctor: "|mk_" + name[1:], GT: st, Named: named}
	for i := 0; i < st.NumFields(); i++ {
		f := st.Field(i)
		fs := r.sortOf(f.Type())
		si.Fields = append(si.Fields, fieldInfo{Name: f.Name(), Sel: "|" + name[1:len(name)-1] + "__" + f.Name() + "|", Sort: fs, GT: f.Type()})
	}
	delete(r.inProg, name)
	r.structs[name] = si
	if len(si.Fields) == 0 {
		r.sc.decls = append(r.sc.decls, fmt.Sprintf("(declare-datatypes ((%s 0)) (((%s))))", name, si.Ctor))
		return name
	}
	var b strings.Builder
	fmt.Fprintf(&b, "(declare-datatypes ((%s 0)) (((%s", name, si.Ctor)
	for _, f := range si.Fields {
		fmt.Fprintf(&b, " (%s %s)", f.Sel, f.Sort)
	}
	b.WriteString("))))")
	r.sc.decls = append(r.sc.decls, b.String())
	return name
}

func (r *sortReg) structInfoOf(sort string) *structInfo { return r.structs[sort] }

func (si *structInfo) field(name string) (int, *fieldInfo) {
	for i := range si.Fields {
		if si.Fields[i].Name == name {
			return i, &si.Fields[i]
		}
	}
	return -1, nil
}

func (si *structInfo) get(v Term, idx int) Term {
	f := si.Fields[idx]
	return App(f.Sort, f.Sel, v)
}

func (si *structInfo) set(v Term, idx int, nv Term) Term {
	args := make([]Term, len(si.Fields))
	for i := range si.Fields {
		if i == idx {
			args[i] = nv
		} else {
			args[i] = si.get(v, i)
		}
	}
	return App(si.Sort, si.Ctor, args...)
}

func (si *structInfo) mk(args []Term) Term {
	if len(args) == 0 {
		return T(si.Sort, si.Ctor)
	}
	return App(si.Sort, si.Ctor, args...)
}

// typeTag gives a small integer identifying a dynamic type (for interface values).
func (r *sortReg) typeTag(t types.Type) int {
	k := typeKey(t)
	if n, ok := r.typeTags[k]; ok {
		return n
	}
	n := len(r.typeTags) + 1
	r.typeTags[k] = n
	if r.tagTypes == nil {
		r.tagTypes = map[int]types.Type{}
	}
	r.tagTypes[n] = t
	return n
}

func isUnsigned(t types.Type) bool {
	if t == nil {
		return false
	}
	b, ok := t.Underlying().(*types.Basic)
	return ok && b.Info()&types.IsUnsigned != 0
}

func intRange(t types.Type) (lo, hi string, ok bool) {
	if t == nil {
		return "", "", false
	}
	b, ok2 := t.Underlying().(*types.Basic)
	if !ok2 {
		return "", "", false
	}
	switch b.Kind() {
	case types.Uint8:
		return "0", "255", true
	case types.Int8:
		return "(- 128)", "127", true
	case types.Uint16:
		return "0", "65535", true
	case types.Int16:
		return "(- 32768)", "32767", true
	case types.Uint32:
		return "0", "4294967295", true
	case types.Int32:
		return "(- 2147483648)", "2147483647", true
	case types.Uint64, types.Uint, types.Uintptr:
		return "0", "18446744073709551615", true
	case types.Int64, types.Int:
		return "(- 9223372036854775808)", "9223372036854775807", true
	}
	return "", "", false
}

// modelledLibraryStructs: library packages whose struct types are plain data (generated protobuf messages) and
// are modelled field by field like the repository's own structs; their internal bookkeeping fields
// (protoimpl.MessageState, ...) are themselves library structs and stay opaque.
func modelledLibraryStructs(pkgPath string) bool {
	return strings.Contains(pkgPath, "bazelbuild/remote-apis/build/bazel/remote/execution/")
}
