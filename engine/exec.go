package main

// Symbolic execution of Go statements over the typed AST, with state merging at joins,
// loop cutting by invariants, and call-by-contract.

import (
	"fmt"
	"go/ast"
	"go/token"
	"go/types"
	"os"
	"sort"
	"strings"

	"golang.org/x/tools/go/packages"
)

type Val struct {
	T     Term
	GT    types.Type
	Fn    *Closure
	Tuple []Val
	// Orig: for slices, the set of parameter names whose backing array this value may share.
	Orig map[string]bool
	// Full: statically known to have no spare capacity (cap == len): appending to it never writes into the
	// backing array it shares with its origin.
	Full bool
}

type Closure struct {
	Lit  *ast.FuncLit
	Decl *ast.FuncDecl
	Pkg  *packages.Package
	Name string
	Obj  *types.Func
}

type State struct {
	pc     Term
	vars   map[types.Object]Val
	heaps  map[string]Term
	dead   bool
	ghosts map[string]Val
	// specHeaps is set while the body of a spec function is evaluated: heap reads become parameters
	specHeaps *[]heapParam
	// anchor: under opt atomic=lock, the state at the last lock acquisition on this path (what old() means)
	anchor *State
}

func (s *State) clone() *State {
	n := &State{pc: s.pc, dead: s.dead, specHeaps: s.specHeaps, anchor: s.anchor, vars: make(map[types.Object]Val, len(s.vars)), heaps: make(map[string]Term, len(s.heaps)), ghosts: make(map[string]Val, len(s.ghosts))}
	for k, v := range s.vars {
		n.vars[k] = v
	}
	for k, v := range s.heaps {
		n.heaps[k] = v
	}
	for k, v := range s.ghosts {
		n.ghosts[k] = v
	}
	return n
}

type retRec struct {
	st   *State
	vals []Val
	// ndefer: how many defer statements had been executed when this return was reached (-1: all)
	ndefer int
}

type jumpFrame struct {
	label     string
	isLoop    bool
	breaks    []*State
	continues []*State
}

type callFrame struct {
	name     string
	pkg      *packages.Package
	node     ast.Node // *ast.FuncDecl or *ast.FuncLit
	sig      *types.Signature
	results  []types.Object
	returns  []*retRec
	panics   []*State
	jumps    []*jumpFrame
	contract *FuncContract
	loopN    int
	litN     int
	defers   []func(st *State)
	top      bool // the function being verified (side obligations are emitted)
	recvName string
	closures map[types.Object]*Closure
}

type Obligation struct {
	Name      string
	Kind      string
	Props     []string
	nd, na    int
	PC        Term
	Goal      Term
	Pos       string
	ExpectSat bool
	Func      string
	Clause    string
	Region    string
	Extra     []Term
	Models    []modelReq
}

type modelReq struct {
	Label string
	Term  string
}

type unsupported struct {
	msg string
	pos token.Pos
}

type Exec struct {
	prog             *Program
	sc               *Script
	sr               *sortReg
	frames           []*callFrame
	obls             []*Obligation
	notes            map[string]int
	trusted          map[string]int
	inlined          map[string]int
	fnName           string
	depth            int
	synthN           int
	specDone         map[string]bool
	inContract       int
	curPkg           *packages.Package
	borrows          []borrow
	lastFieldOnly    map[types.Object]map[string]bool
	pendingFieldOnly map[types.Object]map[string]bool
	borrowArgs       map[ast.Expr]bool
	borrowCall       *ast.CallExpr
	recvLv           ast.Expr
	recvPath         []int
	quiet            bool // suppress side obligations (inlined callee bodies, contract evaluation)
	inputs           []modelReq
	stack            []string
	nameCount        map[string]int
	pureTyped        map[string]bool
	idxStack         []*types.Var
	askedComparable bool
	preEval map[ast.Expr]Val
	mapRangeDepth    int
	ifaceAsked       map[string]types.Type
	implDone         map[string]bool
	neutralMemo      map[*types.Func]int
	specs            map[string]*specInfo
	visitedStack     []func(*State, Term) Term
	dry              bool // inside the dry run of a loop body (ghost-effect discovery)
	inlineDepth      int  // > 0 inside an inlined (declared) callee
	lastIterPos      string
	lastIterDom      Term
	pendingHeapNames map[string]bool
	pendingPos       token.Pos
	heapSorts        map[string]string
	lastHeapNames    map[string]bool // heaps written (only) through contracts with modifies lists, from the last assignedIn
}

func (e *Exec) fail(pos token.Pos, format string, a ...any) {
	panic(unsupported{fmt.Sprintf(format, a...), pos})
}

func (e *Exec) note(s string)     { e.notes[s]++ }
func (e *Exec) trust(s string)    { e.trusted[s]++ }
func (e *Exec) top() *callFrame   { return e.frames[len(e.frames)-1] }
func (e *Exec) info() *types.Info { return e.top().pkg.TypesInfo }

func (e *Exec) posStr(p token.Pos) string {
	if !p.IsValid() {
		return ""
	}
	ps := e.prog.fset.Position(p)
	return fmt.Sprintf("%s:%d", strings.TrimPrefix(ps.Filename, e.prog.repo+"/"), ps.Line)
}

func (e *Exec) assume(st *State, t Term) {
	if st.dead {
		return
	}
	e.sc.Assert(Implies(st.pc, t))
}

func (e *Exec) assumeGlobal(t Term) { e.sc.Assert(t) }

func (e *Exec) oblige(st *State, name, kind string, props []string, goal Term, pos token.Pos) *Obligation {
	if st.dead || st.pc.S == "false" || goal.S == "true" {
		if goal.S != "true" || kind == "post" || kind == "lemma" || kind == "frame" || ((kind == "callsite" || kind == "returnsite") && !st.dead && st.pc.S != "false") {
			// still record trivially true post obligations so that counts are stable
		} else {
			return nil
		}
	}
	nd, na := e.sc.Mark()
	if e.nameCount == nil {
		e.nameCount = map[string]int{}
	}
	e.nameCount[name]++
	if n := e.nameCount[name]; n > 1 {
		name = fmt.Sprintf("%s.%d", name, n)
	}
	o := &Obligation{Name: name, Kind: kind, Props: props, nd: nd, na: na, PC: st.pc, Goal: goal, Pos: e.posStr(pos), Func: e.fnName}
	o.Models = append(o.Models, e.inputs...)
	e.obls = append(e.obls, o)
	return o
}

// sideOblige emits a safety obligation (bounds, nil, division) for the function under verification.
func (e *Exec) sideOblige(st *State, what string, goal Term, pos token.Pos) {
	if e.quiet || e.inContract > 0 {
		return
	}
	f := e.frames[0]
	if f.contract != nil && f.contract.Opts["nopanic"] == "off" {
		return
	}
	if what == "iface-compare" && (f.contract == nil || !strings.Contains(f.contract.Opts["nopanic"], "ifacecompare")) {
		return // opt-in: error values and other library interfaces are compared everywhere and their dynamic types are unknown
	}
	if f.contract != nil {
		// nopanic=<kind>[,<kind>]: only the listed kinds of panic are obligations (typeassert, ifacecompare, index, ...)
		if v := f.contract.Opts["nopanic"]; v != "" && v != "on" {
			keep := false
			for _, k := range strings.Split(v, ",") {
				if k == what || k == strings.ReplaceAll(what, "-", "") {
					keep = true
				}
			}
			if !keep {
				return
			}
		}
	}
	name := fmt.Sprintf("%s#nopanic:%s@%s", e.fnName, what, e.relLine(pos))
	e.oblige(st, name, "no-panic", nil, goal, pos)
}

// relLine gives a position label relative to the start of the function being verified, so that
// unrelated edits elsewhere in the file do not rename obligations.
func (e *Exec) relLine(pos token.Pos) string {
	f := e.frames[0]
	if f.node == nil || !pos.IsValid() {
		return "?"
	}
	base := e.prog.fset.Position(f.node.Pos()).Line
	p := e.prog.fset.Position(pos)
	return fmt.Sprintf("L%d", p.Line-base)
}

func (e *Exec) newPC(st *State, cond Term) Term {
	c := And(st.pc, cond)
	if c.S == "true" || c.S == "false" || len(c.S) < 40 || e.sc.binders > 0 {
		return c
	}
	pc := e.sc.Fresh("pc", SBool)
	e.sc.Assert(Eq(pc, c))
	return pc
}

func (e *Exec) fork(st *State, cond Term) *State {
	n := st.clone()
	n.pc = e.newPC(st, cond)
	if n.pc.S == "false" {
		n.dead = true
	}
	return n
}

// merge joins states with mutually exclusive path conditions into one.
func (e *Exec) merge(states ...*State) *State {
	var live []*State
	for _, s := range states {
		if s != nil && !s.dead {
			live = append(live, s)
		}
	}
	if len(live) == 0 {
		return &State{pc: False, dead: true, vars: map[types.Object]Val{}, heaps: map[string]Term{}, ghosts: map[string]Val{}}
	}
	acc := live[0]
	for _, s := range live[1:] {
		acc = e.merge2(acc, s)
	}
	return acc
}

func (e *Exec) mergeVal(c Term, a, b Val, hint string) Val {
	if a.T.S == b.T.S && a.Fn == b.Fn {
		if len(b.Orig) > 0 {
			a.Orig = unionOrig(a.Orig, b.Orig)
		}
		return a
	}
	if a.Fn != nil || b.Fn != nil {
		if a.Fn != b.Fn {
			// closures differ by path: the merged value keeps its nil-ness but can only be called opaquely
			if a.T.Sort == b.T.Sort {
				return Val{T: Ite(c, a.T, b.T), GT: a.GT}
			}
			return Val{T: a.T, GT: a.GT}
		}
	}
	if a.T.Sort != b.T.Sort {
		return a
	}
	t := Ite(c, a.T, b.T)
	if len(t.S) > 60 && e.sc.binders == 0 {
		f := e.sc.Fresh(hint, a.T.Sort)
		e.sc.Assert(Eq(f, t))
		t = f
	}
	return Val{T: t, GT: a.GT, Orig: unionOrig(a.Orig, b.Orig), Full: a.Full && b.Full}
}

func unionOrig(a, b map[string]bool) map[string]bool {
	if len(a) == 0 {
		return b
	}
	if len(b) == 0 {
		return a
	}
	n := map[string]bool{}
	for k := range a {
		n[k] = true
	}
	for k := range b {
		n[k] = true
	}
	return n
}

func (e *Exec) merge2(a, b *State) *State {
	n := &State{vars: map[types.Object]Val{}, heaps: map[string]Term{}, ghosts: map[string]Val{}}
	if a.anchor == b.anchor {
		n.anchor = a.anchor
	}
	c := a.pc // a.pc and b.pc are exclusive; under (a.pc or b.pc), a.pc decides
	for k, va := range a.vars {
		if vb, ok := b.vars[k]; ok {
			n.vars[k] = e.mergeVal(c, va, vb, k.Name())
		} else if kv, isVar := k.(*types.Var); isVar {
			// a captured variable assigned on one path only: the other path still has its entry value
			if cv, ok := e.capturedVal(kv); ok && e.isCaptured(kv) {
				n.vars[k] = e.mergeVal(c, va, cv, k.Name())
			}
		}
	}
	for k, vb := range b.vars {
		if _, ok := a.vars[k]; ok {
			continue
		}
		if kv, isVar := k.(*types.Var); isVar {
			if cv, ok := e.capturedVal(kv); ok && e.isCaptured(kv) {
				n.vars[k] = e.mergeVal(c, cv, vb, k.Name())
			}
		}
	}
	for k, ha := range a.heaps {
		hb, ok := b.heaps[k]
		if !ok {
			hb = e.missingHeap(b, k, ha.Sort)
		}
		n.heaps[k] = e.mergeVal(c, Val{T: ha}, Val{T: hb}, "heap").T
	}
	for k, hb := range b.heaps {
		if _, ok := a.heaps[k]; !ok {
			ha := e.missingHeap(a, k, hb.Sort)
			n.heaps[k] = e.mergeVal(c, Val{T: ha}, Val{T: hb}, "heap").T
		}
	}
	for k, ga := range a.ghosts {
		gb, ok := b.ghosts[k]
		if !ok {
			gb, ok = e.ghostDefault(k, ga)
		}
		if ok {
			n.ghosts[k] = e.mergeVal(c, ga, gb, "ghost_"+k)
		}
	}
	for k, gb := range b.ghosts {
		if _, ok := a.ghosts[k]; ok {
			continue
		}
		if ga, ok := e.ghostDefault(k, gb); ok {
			n.ghosts[k] = e.mergeVal(c, ga, gb, "ghost_"+k)
		}
	}
	pc := Or(a.pc, b.pc)
	if len(pc.S) > 40 && e.sc.binders == 0 {
		f := e.sc.Fresh("pcj", SBool)
		e.sc.Assert(Eq(f, pc))
		pc = f
	}
	n.pc = pc
	return n
}

func (e *Exec) missingHeap(s *State, k, sort string) Term {
	if _, bumped := s.ghosts["heapver"]; bumped {
		return e.sc.Fresh("heap_"+k, sort)
	}
	return e.initialHeap(k, sort)
}

// ghostDefault gives the value a ghost variable has on a path that never touched it.
func (e *Exec) ghostDefault(k string, other Val) (Val, bool) {
	switch {
	case strings.HasPrefix(k, "written:"), strings.HasPrefix(k, "called:"):
		return Val{T: False}, true
	case k == "heapver":
		return other, true
	case strings.HasPrefix(k, "g:"):
		return Val{T: e.sc.Const("ghost0:"+strings.TrimPrefix(k, "g:"), other.T.Sort), GT: other.GT}, true
	case strings.HasPrefix(k, "set:"):
		return Val{T: e.sc.Const("set0:"+strings.TrimPrefix(k, "set:"), other.T.Sort)}, true
	case k == "alloc":
		return Val{T: e.sc.Const("alloc0", SInt)}, true
	case k == "closed":
		return Val{T: e.closed0()}, true
	case k == "received":
		return Val{T: e.received0()}, true
	case k == "trace":
		e.declEvent()
		return Val{T: e.sc.Const("trace0", SlcSort("Event"))}, true
	}
	return Val{}, false
}

// initialHeap names the heap as it was at function entry (shared by all states).
func (e *Exec) initialHeap(name, sort string) Term {
	return e.sc.Const("heap0:"+name, sort)
}

func (e *Exec) heap(st *State, name, sort string) Term {
	if h, ok := st.heaps[name]; ok {
		return h
	}
	h := e.initialHeap(name, sort)
	st.heaps[name] = h
	return h
}

func (e *Exec) havocHeaps(st *State, why string) {
	for k, h := range st.heaps {
		st.heaps[k] = e.sc.Fresh("heap_"+k, h.Sort)
	}
	// heaps not touched so far would be read as their initial value: record a version bump
	st.ghosts["heapver"] = Val{T: e.sc.Fresh("heapver", SInt)}
	e.note("heaps havocked: " + why)
}

// heapFor returns the heap name for a pointee type.
func (e *Exec) ptrHeap(elem types.Type) (string, string) {
	s := e.sr.sortOf(elem)
	return "H:" + s, ArraySort(SInt, s)
}

func (e *Exec) mapHeap(m *types.Map) (string, string) {
	s := e.sr.mapValSort(m)
	return "M:" + s, ArraySort(SInt, s)
}

// heap reads after a havoc of "all heaps" must not see the initial heap for names first touched later.
func (e *Exec) heapRead(st *State, name, sort string) Term {
	if st.specHeaps != nil {
		return e.specHeapRead(st, name, sort)
	}
	if h, ok := st.heaps[name]; ok && len(h.S) > 1500 && e.sc.binders == 0 {
		// keep heap terms small: name long store chains
		nm := e.sc.Fresh("hp", h.Sort)
		e.sc.Assert(Eq(nm, h))
		st.heaps[name] = nm
		return nm
	}
	if h, ok := st.heaps[name]; ok {
		return h
	}
	if ver, bumped := st.ghosts["heapver"]; bumped {
		// one constant per (heap, havoc): clones of this state (contract evaluation, dry runs) that touch the
		// heap first must see the same heap as the state they were cloned from
		h := e.sc.Const("heap_"+name+"@"+strings.Trim(ver.T.S, "|"), sort)
		st.heaps[name] = h
		return h
	}
	return e.heap(st, name, sort)
}

// -----------------------------------------------------------------------------------------
// statements

func (e *Exec) block(st *State, stmts []ast.Stmt) {
	for _, s := range stmts {
		if st.dead {
			return
		}
		e.stmt(st, s)
	}
}

func (e *Exec) setState(dst, src *State) { *dst = *src }

func (e *Exec) stmt(st *State, s ast.Stmt) {
	if st.dead {
		return
	}
	switch s := s.(type) {
	case *ast.BlockStmt:
		e.block(st, s.List)
	case *ast.ExprStmt:
		e.ev(st, s.X)
	case *ast.AssignStmt:
		e.assign(st, s)
	case *ast.IncDecStmt:
		one := Val{T: IntLit(1)}
		cur := e.ev(st, s.X)
		op := token.ADD
		if s.Tok == token.DEC {
			op = token.SUB
		}
		nv := e.binop(st, op, cur, one, s.Pos())
		nv.GT = cur.GT
		e.store(st, s.X, nv)
	case *ast.DeclStmt:
		gd, ok := s.Decl.(*ast.GenDecl)
		if !ok {
			e.fail(s.Pos(), "unsupported declaration")
		}
		if gd.Tok != token.VAR {
			return
		}
		for _, sp := range gd.Specs {
			vs := sp.(*ast.ValueSpec)
			if len(vs.Values) == 1 && len(vs.Names) > 1 {
				v := e.ev(st, vs.Values[0])
				for i, n := range vs.Names {
					if n.Name != "_" {
						st.vars[e.info().Defs[n]] = v.Tuple[i]
					}
				}
				continue
			}
			for i, n := range vs.Names {
				obj := e.info().Defs[n]
				if n.Name == "_" || obj == nil {
					if i < len(vs.Values) {
						e.ev(st, vs.Values[i])
					}
					continue
				}
				if i < len(vs.Values) {
					v := e.ev(st, vs.Values[i])
					v = e.convertTo(st, v, obj.Type())
					st.vars[obj] = v
				} else {
					st.vars[obj] = e.zero(obj.Type())
				}
			}
		}
	case *ast.IfStmt:
		if s.Init != nil {
			e.stmt(st, s.Init)
		}
		cond := e.ev(st, s.Cond).T
		a := e.fork(st, cond)
		b := e.fork(st, Not(cond))
		e.stmt(a, s.Body)
		if s.Else != nil {
			e.stmt(b, s.Else)
		}
		e.setState(st, e.merge(a, b))
	case *ast.ReturnStmt:
		e.ret(st, s)
	case *ast.ForStmt:
		e.forStmt(st, s, "")
	case *ast.RangeStmt:
		e.rangeStmt(st, s, "")
	case *ast.LabeledStmt:
		switch inner := s.Stmt.(type) {
		case *ast.ForStmt:
			e.forStmt(st, inner, s.Label.Name)
		case *ast.RangeStmt:
			e.rangeStmt(st, inner, s.Label.Name)
		default:
			e.stmt(st, s.Stmt)
		}
	case *ast.BranchStmt:
		e.branch(st, s)
	case *ast.SwitchStmt:
		e.switchStmt(st, s)
	case *ast.TypeSwitchStmt:
		e.typeSwitch(st, s)
	case *ast.SelectStmt:
		e.selectStmt(st, s)
	case *ast.DeferStmt:
		e.deferStmt(st, s)
	case *ast.GoStmt:
		// A goroutine is not executed: its effects are outside the sequential model.
		e.note("go statement not executed (call-site clauses are still checked) at " + e.posStr(s.Pos()))
		e.goSiteChecks(st, s.Call)
	case *ast.EmptyStmt:
	case *ast.SendStmt:
		e.sendsiteChecks(st, s, e.ev(st, s.Value))
		e.note("channel send modelled as a ghost event only at " + e.posStr(s.Pos()))
		e.ghostEvent(st, "send", e.ev(st, s.Chan), e.ev(st, s.Value))
	default:
		e.fail(s.Pos(), "unsupported statement %T", s)
	}
}

func (e *Exec) branch(st *State, s *ast.BranchStmt) {
	f := e.top()
	label := ""
	if s.Label != nil {
		label = s.Label.Name
	}
	switch s.Tok {
	case token.BREAK:
		for i := len(f.jumps) - 1; i >= 0; i-- {
			j := f.jumps[i]
			if label == "" || j.label == label {
				j.breaks = append(j.breaks, st.clone())
				st.dead = true
				return
			}
		}
	case token.CONTINUE:
		// `callsite continue name: P`: P must hold wherever the function under contract skips the rest of an iteration
		if len(e.frames) == 1 {
			e.builtinSiteChecks(st, "continue", nil, &ast.CallExpr{Fun: &ast.Ident{Name: "continue", NamePos: s.Pos()}, Lparen: s.Pos(), Rparen: s.End()})
		}
		for i := len(f.jumps) - 1; i >= 0; i-- {
			j := f.jumps[i]
			if j.isLoop && (label == "" || j.label == label) {
				j.continues = append(j.continues, st.clone())
				st.dead = true
				return
			}
		}
	}
	e.fail(s.Pos(), "unsupported branch statement %s", s.Tok)
}

func (e *Exec) ret(st *State, s *ast.ReturnStmt) {
	f := e.top()
	var vals []Val
	if len(s.Results) == 0 {
		for _, r := range f.results {
			vals = append(vals, st.vars[r])
		}
	} else if len(s.Results) == 1 && f.sig.Results().Len() > 1 {
		v := e.ev(st, s.Results[0])
		vals = v.Tuple
	} else {
		for i, r := range s.Results {
			v := e.ev(st, r)
			v = e.convertTo(st, v, f.sig.Results().At(i).Type())
			vals = append(vals, v)
		}
	}
	// named results take the returned values (visible to deferred closures)
	for i, r := range f.results {
		if i < len(vals) && r != nil {
			st.vars[r] = vals[i]
		}
	}
	if len(e.frames) == 1 {
		e.returnsiteChecks(st, s, vals)
	}
	f.returns = append(f.returns, &retRec{st: st.clone(), vals: vals, ndefer: len(f.defers)})
	st.dead = true
}

func (e *Exec) deferStmt(st *State, s *ast.DeferStmt) {
	f := e.top()
	call := s.Call
	// evaluate arguments now
	name := e.calleeName(call)
	switch {
	case strings.HasSuffix(name, ".Unlock") || strings.HasSuffix(name, ".RUnlock") || strings.HasSuffix(name, ".Done"):
		return // lock release / waitgroup: no effect on verified state
	}
	if st.pc.S != "true" && !e.deferUnconditionalOK(call) {
		e.note("defer under a condition treated as unconditional at " + e.posStr(s.Pos()))
	}
	// arguments (and the receiver) are evaluated when the defer statement runs: snapshot the variables they read
	snap := map[types.Object]Val{}
	grab := func(x ast.Expr) {
		ast.Inspect(x, func(n ast.Node) bool {
			if _, isLit := n.(*ast.FuncLit); isLit {
				return false
			}
			if id, ok := n.(*ast.Ident); ok {
				if obj, ok := e.info().Uses[id].(*types.Var); ok {
					if v, ok := st.vars[obj]; ok {
						snap[obj] = v
					}
				}
			}
			return true
		})
	}
	// the argument expressions themselves are evaluated now (including any calls they contain)
	pre := map[ast.Expr]Val{}
	for _, a := range call.Args {
		if _, isLit := ast.Unparen(a).(*ast.FuncLit); isLit {
			continue
		}
		pre[a] = e.ev(st, a)
		if st.dead {
			return
		}
	}
	if sel, ok := ast.Unparen(call.Fun).(*ast.SelectorExpr); ok {
		grab(sel.X)
	}
	f.defers = append(f.defers, func(st2 *State) {
		savedPre := e.preEval
		e.preEval = pre
		defer func() { e.preEval = savedPre }()
		saved := map[types.Object]*Val{}
		for o, v := range snap {
			if cur, ok := st2.vars[o]; ok {
				c := cur
				saved[o] = &c
			} else {
				saved[o] = nil
			}
			st2.vars[o] = v
		}
		e.ev(st2, call)
		for o, c := range saved {
			if c == nil {
				delete(st2.vars, o)
			} else {
				st2.vars[o] = *c
			}
		}
	})
}

func (e *Exec) deferUnconditionalOK(call *ast.CallExpr) bool { return false }

func (e *Exec) calleeName(call *ast.CallExpr) string {
	switch f := call.Fun.(type) {
	case *ast.SelectorExpr:
		if obj, ok := e.info().Uses[f.Sel].(*types.Func); ok {
			return obj.FullName()
		}
		return "." + f.Sel.Name
	case *ast.Ident:
		if obj, ok := e.info().Uses[f].(*types.Func); ok {
			return obj.FullName()
		}
		return f.Name
	}
	return ""
}

func (e *Exec) switchStmt(st *State, s *ast.SwitchStmt) {
	if s.Init != nil {
		e.stmt(st, s.Init)
	}
	var tag *Val
	if s.Tag != nil {
		v := e.ev(st, s.Tag)
		tag = &v
	}
	jf := &jumpFrame{}
	f := e.top()
	f.jumps = append(f.jumps, jf)
	var ends []*State
	rest := st.clone()
	var defaultClause *ast.CaseClause
	clauses := s.Body.List
	for ci, c := range clauses {
		cc := c.(*ast.CaseClause)
		if cc.List == nil {
			defaultClause = cc
			continue
		}
		var conds []Term
		for _, x := range cc.List {
			if tag != nil {
				xv := e.ev(rest, x)
				conds = append(conds, e.binop(rest, token.EQL, *tag, xv, x.Pos()).T)
			} else {
				conds = append(conds, e.ev(rest, x).T)
			}
		}
		cond := Or(conds...)
		taken := e.fork(rest, cond)
		e.runClauses(taken, clauses, ci)
		ends = append(ends, taken)
		rest = e.fork(rest, Not(cond))
	}
	if defaultClause != nil {
		for di, c := range clauses {
			if c == ast.Stmt(defaultClause) {
				e.runClauses(rest, clauses, di)
			}
		}
	}
	ends = append(ends, rest)
	f.jumps = f.jumps[:len(f.jumps)-1]
	ends = append(ends, jf.breaks...)
	e.setState(st, e.merge(ends...))
}

// selectStmt: exactly one communication clause proceeds, chosen arbitrarily (which channels are ready is outside
// the sequential model); its communication is executed like the statement it is, then its body.
func (e *Exec) selectStmt(st *State, s *ast.SelectStmt) {
	jf := &jumpFrame{}
	f := e.top()
	f.jumps = append(f.jumps, jf)
	var ends []*State
	rest := st.clone()
	for i, c := range s.Body.List {
		cc := c.(*ast.CommClause)
		taken := rest
		if i < len(s.Body.List)-1 {
			choice := e.sc.Fresh("selected", SBool)
			taken = e.fork(rest, choice)
			rest = e.fork(rest, Not(choice))
		}
		if cc.Comm != nil {
			e.stmt(taken, cc.Comm)
		}
		e.block(taken, cc.Body)
		ends = append(ends, taken)
	}
	if len(s.Body.List) == 0 {
		rest.dead = true // select {} blocks forever
		ends = append(ends, rest)
	}
	f.jumps = f.jumps[:len(f.jumps)-1]
	ends = append(ends, jf.breaks...)
	e.setState(st, e.merge(ends...))
}

// runClauses executes the body of clause i and, while a body ends in `fallthrough`, the bodies that follow.
func (e *Exec) runClauses(st *State, clauses []ast.Stmt, i int) {
	for ; i < len(clauses) && !st.dead; i++ {
		cc := clauses[i].(*ast.CaseClause)
		body := cc.Body
		ft := hasFallthrough(cc)
		if ft {
			body = body[:len(body)-1]
		}
		e.block(st, body)
		if !ft {
			return
		}
	}
}

func hasFallthrough(cc *ast.CaseClause) bool {
	if len(cc.Body) == 0 {
		return false
	}
	b, ok := cc.Body[len(cc.Body)-1].(*ast.BranchStmt)
	return ok && b.Tok == token.FALLTHROUGH
}

func (e *Exec) typeSwitch(st *State, s *ast.TypeSwitchStmt) {
	if s.Init != nil {
		e.stmt(st, s.Init)
	}
	var x ast.Expr
	var bind *ast.Ident
	switch a := s.Assign.(type) {
	case *ast.ExprStmt:
		x = a.X.(*ast.TypeAssertExpr).X
	case *ast.AssignStmt:
		x = a.Rhs[0].(*ast.TypeAssertExpr).X
		bind = a.Lhs[0].(*ast.Ident)
	}
	v := e.ev(st, x)
	_ = bind
	jf := &jumpFrame{}
	f := e.top()
	f.jumps = append(f.jumps, jf)
	var ends []*State
	rest := st.clone()
	var def *ast.CaseClause
	for _, c := range s.Body.List {
		cc := c.(*ast.CaseClause)
		if cc.List == nil {
			def = cc
			continue
		}
		var conds []Term
		var single types.Type
		for _, tx := range cc.List {
			if id, ok := tx.(*ast.Ident); ok && id.Name == "nil" {
				conds = append(conds, Eq(v.T, IntLit(0)))
				continue
			}
			tt := e.info().TypeOf(tx)
			conds = append(conds, e.hasDynType(rest, v, tt))
			single = tt
		}
		cond := Or(conds...)
		taken := e.fork(rest, cond)
		if obj := e.info().Implicits[cc]; obj != nil {
			if len(cc.List) == 1 && single != nil {
				taken.vars[obj] = e.unbox(taken, v, single)
			} else {
				taken.vars[obj] = v
			}
		}
		e.block(taken, cc.Body)
		ends = append(ends, taken)
		rest = e.fork(rest, Not(cond))
	}
	if def != nil {
		if obj := e.info().Implicits[def]; obj != nil {
			rest.vars[obj] = v
		}
		e.block(rest, def.Body)
	}
	ends = append(ends, rest)
	f.jumps = f.jumps[:len(f.jumps)-1]
	ends = append(ends, jf.breaks...)
	e.setState(st, e.merge(ends...))
}

// -----------------------------------------------------------------------------------------
// assignment

func (e *Exec) assign(st *State, s *ast.AssignStmt) {
	info := e.info()
	if s.Tok != token.ASSIGN && s.Tok != token.DEFINE {
		// op-assign
		var op token.Token
		switch s.Tok {
		case token.ADD_ASSIGN:
			op = token.ADD
		case token.SUB_ASSIGN:
			op = token.SUB
		case token.MUL_ASSIGN:
			op = token.MUL
		case token.QUO_ASSIGN:
			op = token.QUO
		case token.REM_ASSIGN:
			op = token.REM
		case token.OR_ASSIGN:
			op = token.OR
		case token.AND_ASSIGN:
			op = token.AND
		case token.XOR_ASSIGN:
			op = token.XOR
		case token.SHL_ASSIGN:
			op = token.SHL
		case token.SHR_ASSIGN:
			op = token.SHR
		default:
			e.fail(s.Pos(), "unsupported assignment operator %s", s.Tok)
		}
		cur := e.ev(st, s.Lhs[0])
		rhs := e.ev(st, s.Rhs[0])
		nv := e.binop(st, op, cur, rhs, s.Pos())
		nv.GT = cur.GT
		nv = e.wrapInt(st, nv, s.Pos())
		e.store(st, s.Lhs[0], nv)
		return
	}
	var vals []Val
	if len(s.Rhs) == 1 && len(s.Lhs) > 1 {
		vals = e.evMulti(st, s.Rhs[0], len(s.Lhs))
	} else {
		for _, r := range s.Rhs {
			vals = append(vals, e.ev(st, r))
		}
	}
	for i, l := range s.Lhs {
		if id, ok := l.(*ast.Ident); ok {
			if id.Name == "_" {
				continue
			}
			var obj types.Object
			if s.Tok == token.DEFINE {
				obj = info.Defs[id]
			}
			if obj == nil {
				obj = info.Uses[id]
			}
			if obj == nil {
				e.fail(id.Pos(), "unresolved identifier %s", id.Name)
			}
			v := e.convertTo(st, vals[i], obj.Type())
			if v.Fn != nil {
				e.top().closures[obj] = v.Fn
			}
			if _, isVar := obj.(*types.Var); isVar && obj.Parent() == obj.Pkg().Scope() {
				// package-level variable
				st.heaps["G:"+obj.Pkg().Path()+"."+obj.Name()] = v.T
				continue
			}
			st.vars[obj] = e.named(v, obj.Name())
			continue
		}
		e.store(st, l, vals[i])
	}
}

// evMulti evaluates an expression producing n values (call, map index, type assertion, channel receive).
func (e *Exec) evMulti(st *State, x ast.Expr, n int) []Val {
	switch x := ast.Unparen(x).(type) {
	case *ast.CallExpr:
		v := e.ev(st, x)
		if len(v.Tuple) != n {
			e.fail(x.Pos(), "call yields %d values, want %d", len(v.Tuple), n)
		}
		return v.Tuple
	case *ast.IndexExpr:
		// v, ok := m[k]
		mv := e.ev(st, x.X)
		mt, ok := mv.GT.Underlying().(*types.Map)
		if !ok {
			e.fail(x.Pos(), "comma-ok index on non-map")
		}
		k := e.ev(st, x.Index)
		val, present := e.mapLookup(st, mv, mt, k)
		return []Val{val, {T: present, GT: types.Typ[types.Bool]}}
	case *ast.TypeAssertExpr:
		v := e.ev(st, x.X)
		tt := e.info().TypeOf(x.Type)
		ok := e.hasDynType(st, v, tt)
		return []Val{e.unbox(st, v, tt), {T: ok, GT: types.Typ[types.Bool]}}
	case *ast.UnaryExpr:
		if x.Op == token.ARROW {
			t := e.info().TypeOf(x)
			var et types.Type = t
			if tup, ok := t.(*types.Tuple); ok {
				et = tup.At(0).Type()
			}
			e.note("channel receive modelled as an arbitrary value at " + e.posStr(x.Pos()))
			e.markReceived(st, e.ev(st, x.X))
			return []Val{e.freshVal("recv", et), {T: e.sc.Fresh("recvok", SBool), GT: types.Typ[types.Bool]}}
		}
	}
	e.fail(x.Pos(), "unsupported multi-value expression %T", x)
	return nil
}

// store assigns v to an lvalue expression.
// named keeps the terms solvers see small (and usable in quantifier patterns): a large value bound to a
// variable is given a name.
func (e *Exec) named(v Val, hint string) Val {
	if len(v.T.S) > 200 && e.sc.binders == 0 && v.Tuple == nil && v.T.Sort != "" {
		nm := e.sc.Fresh("v_"+hint, v.T.Sort)
		e.sc.Assert(Eq(nm, v.T))
		v.T = nm
	}
	return v
}

func (e *Exec) store(st *State, l ast.Expr, v Val) {
	info := e.info()
	switch l := ast.Unparen(l).(type) {
	case *ast.Ident:
		if l.Name == "_" {
			return
		}
		obj := info.Uses[l]
		if obj == nil {
			obj = info.Defs[l]
		}
		v = e.convertTo(st, v, obj.Type())
		if _, isVar := obj.(*types.Var); isVar && obj.Pkg() != nil && obj.Parent() == obj.Pkg().Scope() {
			st.heaps["G:"+obj.Pkg().Path()+"."+obj.Name()] = v.T
			return
		}
		if v.Fn != nil {
			e.top().closures[obj] = v.Fn
		}
		st.vars[obj] = e.named(v, obj.Name())
	case *ast.SelectorExpr:
		// x.f = v
		base := e.ev(st, l.X)
		sel := info.Selections[l]
		if sel == nil {
			e.fail(l.Pos(), "assignment to qualified identifier")
		}
		path := sel.Index()
		nv := e.updatePath(st, base, path, v, l.Pos())
		if _, isPtr := base.GT.Underlying().(*types.Pointer); isPtr {
			return // heap updated in place
		}
		e.store(st, l.X, nv)
	case *ast.IndexExpr:
		base := e.ev(st, l.X)
		idx := e.ev(st, l.Index)
		switch bt := base.GT.Underlying().(type) {
		case *types.Slice:
			e.sideOblige(st, "index", And(Le(IntLit(0), idx.T), Lt(idx.T, SlcLen(base.T))), l.Pos())
			v = e.convertTo(st, v, bt.Elem())
			arr := Store(SlcArr(base.T), idx.T, v.T)
			nv := Val{T: MkSlc(slcElem(base.T.Sort), arr, SlcLen(base.T), SlcNN(base.T)), GT: base.GT, Orig: base.Orig}
			e.recordSliceWrite(st, base, l.Pos())
			e.store(st, l.X, nv)
		case *types.Array:
			v = e.convertTo(st, v, bt.Elem())
			nv := Val{T: Store(base.T, idx.T, v.T), GT: base.GT}
			e.store(st, l.X, nv)
		case *types.Map:
			v = e.convertTo(st, v, bt.Elem())
			e.mapStore(st, base, bt, idx, v)
		case *types.Pointer:
			e.fail(l.Pos(), "index assignment through pointer to array")
		default:
			e.fail(l.Pos(), "unsupported index assignment on %s", base.GT)
		}
	case *ast.StarExpr:
		p := e.ev(st, l.X)
		pt := p.GT.Underlying().(*types.Pointer)
		hn, hs := e.ptrHeap(pt.Elem())
		e.sideOblige(st, "nil-deref", Not(Eq(p.T, IntLit(0))), l.Pos())
		v = e.convertTo(st, v, pt.Elem())
		st.heaps[hn] = Store(e.heapRead(st, hn, hs), p.T, v.T)
	default:
		e.fail(l.Pos(), "unsupported assignment target %T", l)
	}
}

// updatePath returns base with the field at path replaced by v; writes through pointers go to the heap.
func (e *Exec) updatePath(st *State, base Val, path []int, v Val, pos token.Pos) Val {
	if pt, ok := base.GT.Underlying().(*types.Pointer); ok {
		hn, hs := e.ptrHeap(pt.Elem())
		e.sideOblige(st, "nil-deref", Not(Eq(base.T, IntLit(0))), pos)
		h := e.heapRead(st, hn, hs)
		cur := Val{T: Select(h, base.T), GT: pt.Elem()}
		nv := e.updatePath(st, cur, path, v, pos)
		st.heaps[hn] = Store(e.heapRead(st, hn, hs), base.T, nv.T)
		return base
	}
	stt, ok := base.GT.Underlying().(*types.Struct)
	if !ok {
		e.fail(pos, "field update on non-struct %s", base.GT)
	}
	e.sr.sortOf(base.GT)
	si := e.sr.structInfoOf(base.T.Sort)
	if si == nil {
		// a library struct whose fields are not modelled: the update yields an arbitrary value of that type
		e.note("field update on opaque struct " + typeKey(base.GT) + " yields an arbitrary value")
		return e.freshVal("opaque_upd", base.GT)
	}
	idx := path[0]
	f := stt.Field(idx)
	// a field update mentions the old value once per field: name large values first or terms grow
	// exponentially with the number of updates
	if len(base.T.S) > 120 && e.sc.binders == 0 {
		nm := e.sc.Fresh("sv", base.T.Sort)
		e.sc.Assert(Eq(nm, base.T))
		base = Val{T: nm, GT: base.GT, Orig: base.Orig}
	}
	if len(path) == 1 {
		v = e.convertTo(st, v, f.Type())
		return Val{T: si.set(base.T, idx, v.T), GT: base.GT}
	}
	inner := Val{T: si.get(base.T, idx), GT: f.Type()}
	ninner := e.updatePath(st, inner, path[1:], v, pos)
	if _, isPtr := f.Type().Underlying().(*types.Pointer); isPtr {
		return base
	}
	return Val{T: si.set(base.T, idx, ninner.T), GT: base.GT}
}

// recordSliceWrite notes an in-place write into a backing array that may be shared with a parameter.
func (e *Exec) recordSliceWrite(st *State, base Val, pos token.Pos) {
	if os.Getenv("GOVC_DEBUG") != "" {
		fmt.Fprintf(os.Stderr, "DEBUG slice write at %s orig=%v\n", e.posStr(pos), base.Orig)
	}
	for p := range base.Orig {
		g := "written:" + p
		cur, ok := st.ghosts[g]
		if !ok {
			cur = Val{T: False}
		}
		_ = cur
		st.ghosts[g] = Val{T: True}
	}
}

// -----------------------------------------------------------------------------------------
// loops

type loopInfo struct {
	key       string
	invs      []*Clause
	assigned  map[types.Object]bool
	heapW     bool
	heapNames map[string]bool
	fieldOnly map[types.Object]map[string]bool
	pos       token.Pos
}

func (e *Exec) loopKeyFor(node ast.Node, header string) (ord string, hdr string) {
	f := e.top()
	f.loopN++
	return fmt.Sprintf("loop#%d", f.loopN), header
}

func (e *Exec) findInvs(ord, hdr string) []*Clause {
	f := e.top()
	if f.contract == nil {
		return nil
	}
	var out []*Clause
	for _, c := range f.contract.Invs {
		if c.LoopKey == ord || (hdr != "" && strings.Contains(hdr, c.LoopKey)) {
			out = append(out, c)
		}
	}
	return out
}

func (e *Exec) src(n ast.Node) string {
	if n == nil {
		return ""
	}
	p1 := e.prog.fset.Position(n.Pos())
	p2 := e.prog.fset.Position(n.End())
	data := e.prog.fileSrc(p1.Filename)
	if data == nil || p2.Offset > len(data) {
		return ""
	}
	return string(data[p1.Offset:p2.Offset])
}

// assignedIn computes the local variables assigned in the given nodes (including in closures called).
func (e *Exec) assignedIn(nodes ...ast.Node) (map[types.Object]bool, bool) {
	info := e.info()
	out := map[types.Object]bool{}
	heapW := false
	e.lastFieldOnly = nil
	seenLit := map[*ast.FuncLit]bool{}
	var visit func(n ast.Node)
	root := func(x ast.Expr) {
		// find the root identifier of an lvalue
		// The first reference crossed (from the assignment target inwards) is the heap that is written;
		// if none is crossed the assignment is to a local variable.
		wholeHeap := func(name, sort string) {
			if e.lastHeapNames == nil {
				e.lastHeapNames = map[string]bool{}
			}
			if e.heapSorts == nil {
				e.heapSorts = map[string]string{}
			}
			e.lastHeapNames[name] = true
			e.heapSorts[name] = sort
		}
		var parent ast.Expr
		for {
			switch y := ast.Unparen(x).(type) {
			case *ast.Ident:
				obj := info.Uses[y]
				if obj == nil {
					obj = info.Defs[y]
				}
				if obj != nil {
					out[obj] = true
					// x.f... = v on a local struct variable writes only field f of it
					field := ""
					if ps, ok := parent.(*ast.SelectorExpr); ok {
						if sel := info.Selections[ps]; sel != nil && sel.Kind() == types.FieldVal && len(sel.Index()) == 1 {
							field = ps.Sel.Name
						}
					}
					if e.lastFieldOnly == nil {
						e.lastFieldOnly = map[types.Object]map[string]bool{}
					}
					if field == "" {
						e.lastFieldOnly[obj] = map[string]bool{"": true}
					} else {
						if e.lastFieldOnly[obj] == nil {
							e.lastFieldOnly[obj] = map[string]bool{}
						}
						e.lastFieldOnly[obj][field] = true
					}
				}
				return
			case *ast.SelectorExpr:
				parent = y
				if t := info.TypeOf(y.X); t != nil {
					if pt, ok := t.Underlying().(*types.Pointer); ok {
						n, s := e.ptrHeap(pt.Elem())
						if id, isId := ast.Unparen(y.X).(*ast.Ident); isId {
							// p.f = v through a plain pointer variable: only the cell p refers to is written
							if e.lastHeapNames == nil {
								e.lastHeapNames = map[string]bool{}
							}
							if e.heapSorts == nil {
								e.heapSorts = map[string]string{}
							}
							// ... and of that cell only the field named (when the pointee is a modelled struct)
							e.lastHeapNames[n+"\x00"+id.Name+"\x00"+y.Sel.Name] = true
							e.heapSorts[n] = s
							return
						}
						wholeHeap(n, s)
						return
					}
				}
				x = y.X
			case *ast.IndexExpr:
				parent = y
				if t := info.TypeOf(y.X); t != nil {
					if mt, ok := t.Underlying().(*types.Map); ok {
						n, s := e.mapHeap(mt)
						if id, isId := ast.Unparen(y.X).(*ast.Ident); isId {
							// m[k] = v on a plain variable: only the map m refers to is written
							if e.lastHeapNames == nil {
								e.lastHeapNames = map[string]bool{}
							}
							if e.heapSorts == nil {
								e.heapSorts = map[string]string{}
							}
							e.lastHeapNames[n+"\x00"+id.Name] = true
							e.heapSorts[n] = s
							return
						}
						wholeHeap(n, s)
						return
					}
					if pt, ok := t.Underlying().(*types.Pointer); ok {
						n, s := e.ptrHeap(pt.Elem())
						wholeHeap(n, s)
						return
					}
				}
				x = y.X
			case *ast.StarExpr:
				if t := info.TypeOf(y.X); t != nil {
					if pt, ok := t.Underlying().(*types.Pointer); ok {
						n, s := e.ptrHeap(pt.Elem())
						wholeHeap(n, s)
						return
					}
				}
				heapW = true
				return
			default:
				heapW = true
				return
			}
		}
	}
	visit = func(n ast.Node) {
		ast.Inspect(n, func(n ast.Node) bool {
			switch n := n.(type) {
			case *ast.AssignStmt:
				for _, l := range n.Lhs {
					root(l)
				}
			case *ast.IncDecStmt:
				root(n.X)
			case *ast.RangeStmt:
				if n.Key != nil {
					root(n.Key)
				}
				if n.Value != nil {
					root(n.Value)
				}
			case *ast.CallExpr:
				// f(&lv) and lv.M() with a pointer receiver write lv when the call returns (borrowed cell)
				for _, a := range n.Args {
					if u, ok := ast.Unparen(a).(*ast.UnaryExpr); ok && u.Op == token.AND {
						if _, isLit := ast.Unparen(u.X).(*ast.CompositeLit); !isLit {
							root(u.X)
						}
					}
				}
				if f, ok := ast.Unparen(n.Fun).(*ast.SelectorExpr); ok {
					if sel := info.Selections[f]; sel != nil && sel.Kind() == types.MethodVal {
						if sig, ok := sel.Obj().Type().(*types.Signature); ok && sig.Recv() != nil {
							_, wantPtr := sig.Recv().Type().Underlying().(*types.Pointer)
							rt := info.TypeOf(f.X)
							if len(sel.Index()) > 1 {
								rt = nil // promoted through embedded fields: decide on the embedded field's type
								t := info.TypeOf(f.X)
								for _, i := range sel.Index()[:len(sel.Index())-1] {
									if p, isP := t.Underlying().(*types.Pointer); isP {
										t = p.Elem()
									}
									st, isS := t.Underlying().(*types.Struct)
									if !isS {
										t = nil
										break
									}
									t = st.Field(i).Type()
								}
								rt = t
							}
							if rt != nil {
								if _, havePtr := rt.Underlying().(*types.Pointer); wantPtr && !havePtr {
									if _, isIface := rt.Underlying().(*types.Interface); !isIface {
										root(f.X)
									}
								}
							}
						}
					}
				}
				// a callee under contract with an explicit modifies list writes exactly those heaps
				if names, ok := e.contractHeapNames(info, n); ok {
					if e.lastHeapNames == nil {
						e.lastHeapNames = map[string]bool{}
					}
					for k := range names {
						e.lastHeapNames[k] = true
					}
					return true
				}
				// closure calls: include what the closure assigns
				if id, ok := n.Fun.(*ast.Ident); ok {
					if obj := info.Uses[id]; obj != nil {
						for _, fr := range e.frames {
							if c, ok := fr.closures[obj]; ok && c.Lit != nil && !seenLit[c.Lit] {
								seenLit[c.Lit] = true
								visit(c.Lit.Body)
							}
						}
					}
				}
				if !e.callIsHeapNeutral(n) {
					heapW = true
				}
			case *ast.FuncLit:
				return true
			}
			return true
		})
	}
	for _, n := range nodes {
		if n != nil {
			visit(n)
		}
	}
	// a cell named by a variable that is itself reassigned in this code is not a fixed cell: widen to the heap
	for key := range e.lastHeapNames {
		parts := strings.SplitN(key, "\x00", 3)
		if len(parts) < 2 || parts[1] == "" {
			continue
		}
		for o := range out {
			if o.Name() == parts[1] {
				delete(e.lastHeapNames, key)
				e.lastHeapNames[parts[0]] = true
				break
			}
		}
	}
	return out, heapW
}

// callIsHeapNeutral reports whether a call certainly leaves all heaps alone.
func (e *Exec) callIsHeapNeutral(call *ast.CallExpr) bool {
	return e.callNeutral(e.info(), call, 0)
}

// callNeutral reports whether a call certainly leaves every heap (pointees, maps, globals) alone.
func (e *Exec) callNeutral(info *types.Info, call *ast.CallExpr, depth int) bool {
	if tv, ok := info.Types[call.Fun]; ok && tv.IsType() {
		return true
	}
	fun := ast.Unparen(call.Fun)
	if ix, ok := fun.(*ast.IndexExpr); ok {
		fun = ix.X
	}
	var fn *types.Func
	var recvT types.Type
	switch f := fun.(type) {
	case *ast.Ident:
		switch o := info.Uses[f].(type) {
		case *types.Builtin:
			return f.Name != "delete" && f.Name != "close" && f.Name != "clear"
		case *types.Func:
			fn = o
		case *types.Var:
			for _, fr := range e.frames {
				if c, ok := fr.closures[o]; ok && c.Lit != nil {
					return depth < 6 && !e.nodeWritesHeap(c.Pkg.TypesInfo, c.Lit.Body, depth+1)
				}
			}
			return false
		}
	case *ast.SelectorExpr:
		if sel, ok := info.Selections[f]; ok {
			if sel.Kind() != types.MethodVal {
				return false
			}
			fn = sel.Obj().(*types.Func)
			recvT = info.TypeOf(f.X)
		} else if o, ok := info.Uses[f.Sel].(*types.Func); ok {
			fn = o
		}
	case *ast.FuncLit:
		return depth < 6 && !e.nodeWritesHeap(info, f.Body, depth+1)
	}
	if fn == nil {
		return false
	}
	name := fn.Origin().FullName()
	litsOK := func() bool {
		for _, a := range call.Args {
			if fl, ok := ast.Unparen(a).(*ast.FuncLit); ok {
				if depth >= 6 || e.nodeWritesHeap(info, fl.Body, depth+1) {
					return false
				}
			}
		}
		return true
	}
	if isNoEffect(name) || isFatal(name) {
		return true
	}
	if stdModels[name] != nil || pureStd[name] || isWalk(name) {
		return litsOK()
	}
	if c := e.prog.contractForName(name); c != nil {
		return c.Pure || (c.ModSet && len(c.Modifies) == 0)
	}
	pkgPath := ""
	if fn.Pkg() != nil {
		pkgPath = fn.Pkg().Path()
	}
	if strings.Contains(pkgPath, "thought-machine/please") {
		decl, pkg := e.prog.findDecl(fn)
		if decl == nil || decl.Body == nil || depth >= 6 {
			return false
		}
		if e.neutralMemo == nil {
			e.neutralMemo = map[*types.Func]int{}
		}
		switch e.neutralMemo[fn.Origin()] {
		case 1:
			return true // recursion: decided by the rest of the body
		case 2:
			return true
		case 3:
			return false
		}
		e.neutralMemo[fn.Origin()] = 1
		w := e.nodeWritesHeap(pkg.TypesInfo, decl.Body, depth+1)
		if w {
			e.neutralMemo[fn.Origin()] = 3
		} else {
			e.neutralMemo[fn.Origin()] = 2
		}
		return !w && litsOK()
	}
	// library callee: it can only reach repository state through its arguments
	if recvT != nil && typeTouchesRepo(recvT, 0) {
		return false
	}
	for _, a := range call.Args {
		if _, ok := ast.Unparen(a).(*ast.FuncLit); ok {
			continue
		}
		if t := info.TypeOf(a); t != nil && typeTouchesRepo(t, 0) {
			return false
		}
	}
	return litsOK()
}

// nodeWritesHeap: does executing this code possibly write through a pointer, into a map or a global,
// or call something that does? (Conservative.)
func (e *Exec) nodeWritesHeap(info *types.Info, node ast.Node, depth int) bool {
	writes := false
	lhs := func(x ast.Expr) {
		for {
			switch y := ast.Unparen(x).(type) {
			case *ast.Ident:
				obj := info.Uses[y]
				if obj == nil {
					obj = info.Defs[y]
				}
				if v, ok := obj.(*types.Var); ok && v.Pkg() != nil && v.Parent() == v.Pkg().Scope() {
					writes = true
				}
				return
			case *ast.SelectorExpr:
				if t := info.TypeOf(y.X); t != nil {
					if _, ok := t.Underlying().(*types.Pointer); ok {
						writes = true
						return
					}
				}
				x = y.X
			case *ast.IndexExpr:
				if t := info.TypeOf(y.X); t != nil {
					switch t.Underlying().(type) {
					case *types.Map, *types.Pointer, *types.Slice:
						writes = true
						return
					}
				}
				x = y.X
			case *ast.StarExpr:
				writes = true
				return
			default:
				writes = true
				return
			}
		}
	}
	ast.Inspect(node, func(n ast.Node) bool {
		if writes {
			return false
		}
		switch n := n.(type) {
		case *ast.AssignStmt:
			for _, l := range n.Lhs {
				lhs(l)
			}
		case *ast.IncDecStmt:
			lhs(n.X)
		case *ast.SendStmt, *ast.GoStmt:
			writes = true
		case *ast.CallExpr:
			if !e.callNeutral(info, n, depth) {
				writes = true
			}
		}
		return true
	})
	return writes
}

// freshCellOnly marks a heap that a loop writes only in cells it allocates itself (f(&local) with `modifies p`).
const freshCellOnly = "\x01fresh"

func (e *Exec) havocVars(st *State, assigned map[types.Object]bool, heapW bool, why string) {
	keys := make([]types.Object, 0, len(assigned))
	for o := range assigned {
		keys = append(keys, o)
	}
	sort.Slice(keys, func(i, j int) bool { return keys[i].Pos() < keys[j].Pos() })
	for _, o := range keys {
		if cur, ok := st.vars[o]; ok {
			if cur.Fn != nil {
				continue
			}
			nv := e.freshVal(o.Name(), o.Type())
			nv.Orig = cur.Orig
			if fs := e.pendingFieldOnly[o]; len(fs) > 0 && !fs[""] {
				// only some fields of this struct variable are assigned in the loop: the others keep their values
				if si := e.sr.structInfoOf(cur.T.Sort); si != nil {
					part, okAll := cur.T, true
					for _, fname := range sortedKeys(fs) {
						fi, f := si.field(fname)
						if f == nil {
							okAll = false
							break
						}
						part = si.set(part, fi, si.get(nv.T, fi))
					}
					if okAll {
						nv = Val{T: part, GT: cur.GT, Orig: cur.Orig}
					}
				}
			}
			st.vars[o] = nv
		} else if o.Pkg() != nil && o.Parent() == o.Pkg().Scope() {
			k := "G:" + o.Pkg().Path() + "." + o.Name()
			st.heaps[k] = e.freshVal(o.Name(), o.Type()).T
		}
	}
	if heapW {
		e.havocHeaps(st, why)
	} else if names := e.pendingHeapNames; len(names) > 0 {
		// keys are "<heap>\x00<variable>": only the cell the variable refers to is havocked
		resolve := e.loopEnv(st, e.pendingPos, nil).resolve
		for _, key := range sortedKeys(names) {
			parts := strings.SplitN(key, "\x00", 3)
			k := parts[0]
			srt := e.heapSorts[k]
			if h, ok := st.heaps[k]; ok {
				srt = h.Sort
			}
			if srt == "" {
				continue
			}
			if len(parts) >= 2 && parts[1] == freshCellOnly {
				// only cells allocated inside the loop are written: every cell that existed on entry keeps its value
				cnt, ok := st.ghosts["alloc"]
				if !ok {
					cnt = Val{T: e.sc.Const("alloc0", SInt)}
				}
				old := e.heapRead(st, k, srt)
				nh := e.sc.Fresh("heap_"+k, srt)
				e.sc.Assert(T(SBool, fmt.Sprintf("(forall ((r Int)) (! (=> (< r %s) (= (select %s r) (select %s r))) :pattern ((select %s r))))", cnt.T.S, nh.S, old.S, nh.S)))
				st.heaps[k] = nh
				continue
			}
			if len(parts) >= 2 {
				if v, ok := resolve(parts[1], st); ok && v.T.Sort == SInt {
					if len(parts) == 3 {
						// only one field of the cell is written in the loop
						if si := e.sr.structInfoOf(arrayValSort(srt)); si != nil {
							if fi, f := si.field(parts[2]); f != nil {
								old := Select(e.heapRead(st, k, srt), v.T)
								fresh := e.sc.Fresh("field_"+parts[1]+"_"+parts[2], f.Sort)
								st.heaps[k] = Store(e.heapRead(st, k, srt), v.T, si.set(old, fi, fresh))
								continue
							}
						}
					}
					cell := e.sc.Fresh("cell_"+parts[1], arrayValSort(srt))
					st.heaps[k] = Store(e.heapRead(st, k, srt), v.T, cell)
					continue
				}
			}
			st.heaps[k] = e.sc.Fresh("heap_"+k, srt)
		}
		e.note("cells named in modifies lists havocked: " + why)
	}
	e.pendingHeapNames = nil
	e.pendingFieldOnly = nil
}

// takeHeapNames hands the heap names collected by the last assignedIn to the next havocVars.
func (e *Exec) takeFieldOnly() map[types.Object]map[string]bool {
	n := e.lastFieldOnly
	e.lastFieldOnly = nil
	return n
}

func (e *Exec) takeHeapNames() map[string]bool {
	n := e.lastHeapNames
	e.lastHeapNames = nil
	return n
}

func (e *Exec) checkInvs(st *State, li *loopInfo, phase string, env func(*State) *cenv) {
	for _, c := range li.invs {
		if c.Kind == "loopexit" {
			continue
		}
		g := e.evContract(st, c.Expr, env(st))
		name := fmt.Sprintf("%s#inv-%s:%s", e.fnName, phase, c.Name)
		e.oblige(st, name, "inv-"+phase, c.Props, g, li.pos)
	}
}

func (e *Exec) assumeInvs(st *State, li *loopInfo, env func(*State) *cenv) {
	for _, c := range li.invs {
		if c.Kind == "loopexit" {
			continue
		}
		g := e.evContract(st, c.Expr, env(st))
		e.assume(st, g)
	}
}

// checkLoopExit: `loopexit "key" name: P` must hold wherever the loop is left — at its normal end AND at every
// break (what an invariant alone never says: a `break` leaves with the invariant but without the exit condition).
func (e *Exec) checkLoopExit(st *State, li *loopInfo, env func(*State) *cenv) {
	if st.dead {
		return
	}
	for _, c := range li.invs {
		if c.Kind != "loopexit" {
			continue
		}
		g := e.evContract(st, c.Expr, env(st))
		name := fmt.Sprintf("%s#loopexit:%s", e.fnName, c.Name)
		o := e.oblige(st, name, "loopexit", c.Props, g, li.pos)
		if o != nil {
			o.Clause = c.Src
		}
	}
}

func (e *Exec) forStmt(st *State, s *ast.ForStmt, label string) {
	if s.Init != nil {
		e.stmt(st, s.Init)
	}
	hdr := "for " + e.src(s.Init) + "; " + e.src(s.Cond) + "; " + e.src(s.Post)
	ord, _ := e.loopKeyFor(s, hdr)
	li := &loopInfo{key: ord, invs: e.findInvs(ord, hdr), pos: s.Pos()}
	li.assigned, li.heapW = e.assignedIn(s.Body, s.Post, s.Cond)
	li.heapNames = e.takeHeapNames()
	li.fieldOnly = e.takeFieldOnly()
	env := func(st *State) *cenv { return e.loopEnv(st, s.Pos(), nil) }
	e.loopCore(st, li, label, env,
		func(st *State) Term {
			if s.Cond == nil {
				return True
			}
			return e.ev(st, s.Cond).T
		},
		func(st *State) { e.stmt(st, s.Body) },
		func(st *State) {
			if s.Post != nil {
				e.stmt(st, s.Post)
			}
		})
}

// loopCore cuts a loop at its head: check invariants, havoc, assume, run one iteration, re-check.
func (e *Exec) loopCore(st *State, li *loopInfo, label string, env func(*State) *cenv, cond func(*State) Term, body func(*State), post func(*State)) {
	f := e.top()
	if f.contract != nil && f.contract.Opts["unroll"] != "" && len(li.invs) == 0 {
		n := 0
		fmt.Sscanf(f.contract.Opts["unroll"], "%d", &n)
		e.unrollLoop(st, li, label, n, cond, body, post)
		return
	}
	e.checkInvs(st, li, "init", env)
	e.pendingHeapNames, e.pendingPos = li.heapNames, li.pos
	e.pendingFieldOnly = li.fieldOnly
	e.havocVars(st, li.assigned, li.heapW, "loop at "+e.posStr(li.pos))
	e.ghostEffects(st, func(s *State) {
		b := e.fork(s, cond(s))
		body(b)
		e.setState(s, b)
	})
	e.assumeInvs(st, li, env)
	c := cond(st)
	bodySt := e.fork(st, c)
	exitSt := e.fork(st, Not(c))
	jf := &jumpFrame{label: label, isLoop: true}
	f.jumps = append(f.jumps, jf)
	body(bodySt)
	f.jumps = f.jumps[:len(f.jumps)-1]
	cont := e.merge(append([]*State{bodySt}, jf.continues...)...)
	if !cont.dead {
		post(cont)
		e.checkInvs(cont, li, "preserve", env)
	}
	outs := append([]*State{exitSt}, jf.breaks...)
	e.setState(st, e.merge(outs...))
	e.checkLoopExit(st, li, env)
}

// unrollLoop executes up to n iterations and then assumes the loop has exited (bounded mode).
func (e *Exec) unrollLoop(st *State, li *loopInfo, label string, n int, cond func(*State) Term, body func(*State), post func(*State)) {
	f := e.top()
	var outs []*State
	cur := st.clone()
	for i := 0; i <= n; i++ {
		c := cond(cur)
		exitSt := e.fork(cur, Not(c))
		outs = append(outs, exitSt)
		if i == n {
			e.note(fmt.Sprintf("loop at %s unrolled %d times (bounded)", e.posStr(li.pos), n))
			break
		}
		bodySt := e.fork(cur, c)
		jf := &jumpFrame{label: label, isLoop: true}
		f.jumps = append(f.jumps, jf)
		body(bodySt)
		f.jumps = f.jumps[:len(f.jumps)-1]
		outs = append(outs, jf.breaks...)
		cur = e.merge(append([]*State{bodySt}, jf.continues...)...)
		if cur.dead {
			break
		}
		post(cur)
	}
	e.setState(st, e.merge(outs...))
}

func (e *Exec) synthVar(name string, t types.Type) *types.Var {
	e.synthN++
	return types.NewVar(token.NoPos, nil, fmt.Sprintf("%s#%d", name, e.synthN), t)
}

func (e *Exec) rangeStmt(st *State, s *ast.RangeStmt, label string) {
	info := e.info()
	hdr := "range " + e.src(s.X)
	ord, _ := e.loopKeyFor(s, hdr)
	li := &loopInfo{key: ord, invs: e.findInvs(ord, hdr), pos: s.Pos()}
	li.assigned, li.heapW = e.assignedIn(s.Body)
	li.heapNames = e.takeHeapNames()
	li.fieldOnly = e.takeFieldOnly()
	xv := e.ev(st, s.X)
	idx := e.synthVar("idx", types.Typ[types.Int])
	st.vars[idx] = Val{T: IntLit(0), GT: types.Typ[types.Int]}
	li.assigned[idx] = true
	// call-site clauses inside the body may refer to the index of the innermost enclosing range loop
	e.idxStack = append(e.idxStack, idx)
	defer func() { e.idxStack = e.idxStack[:len(e.idxStack)-1] }()
	// ... and ask whether they run in map iteration order (inmaprange())
	if _, overMap := xv.GT.Underlying().(*types.Map); overMap {
		e.mapRangeDepth++
		defer func() { e.mapRangeDepth-- }()
	}
	var keyObj, valObj types.Object
	lhsObj := func(x ast.Expr) types.Object {
		if x == nil {
			return nil
		}
		id, ok := x.(*ast.Ident)
		if !ok {
			e.fail(x.Pos(), "range with non-identifier target")
		}
		if id.Name == "_" {
			return nil
		}
		if o := info.Defs[id]; o != nil {
			return o
		}
		return info.Uses[id]
	}
	keyObj, valObj = lhsObj(s.Key), lhsObj(s.Value)
	if keyObj != nil {
		li.assigned[keyObj] = true
		if _, ok := st.vars[keyObj]; !ok {
			st.vars[keyObj] = e.zero(keyObj.Type())
		}
	}
	if valObj != nil {
		li.assigned[valObj] = true
		if _, ok := st.vars[valObj]; !ok {
			st.vars[valObj] = e.zero(valObj.Type())
		}
	}
	var n Term
	var elemAt func(st *State, i Term) (k Val, v Val)
	var seqVal *Val
	var iterPos string
	var iterDom Term
	switch xt := xv.GT.Underlying().(type) {
	case *types.Slice:
		n = SlcLen(xv.T)
		e.lenFact(st, xv.T)
		elemAt = func(st *State, i Term) (Val, Val) {
			el := Val{T: Select(SlcArr(xv.T), i), GT: xt.Elem()}
			e.typeFacts(st, el)
			return Val{T: i, GT: types.Typ[types.Int]}, el
		}
	case *types.Array:
		n = IntLit(xt.Len())
		elemAt = func(st *State, i Term) (Val, Val) {
			el := Val{T: Select(xv.T, i), GT: xt.Elem()}
			e.typeFacts(st, el)
			return Val{T: i, GT: types.Typ[types.Int]}, el
		}
	case *types.Basic:
		if xt.Info()&types.IsString != 0 {
			// Byte-wise iteration: exact for ASCII strings; recorded as an assumption.
			e.note("range over string treated as byte-wise (ASCII assumption) at " + e.posStr(s.Pos()))
			n = App(SInt, "str.len", xv.T)
			elemAt = func(st *State, i Term) (Val, Val) {
				return Val{T: i, GT: types.Typ[types.Int]}, Val{T: App(SInt, "str.to_code", App(SString, "str.at", xv.T, i)), GT: types.Typ[types.Rune]}
			}
		} else if xt.Info()&types.IsInteger != 0 {
			n = xv.T
			elemAt = func(st *State, i Term) (Val, Val) {
				return Val{T: i, GT: xv.GT}, Val{}
			}
		} else {
			e.fail(s.Pos(), "range over %s", xv.GT)
		}
	case *types.Map:
		// ghost iteration sequence: distinct keys, exactly the domain
		keys := e.mapIterSeq(st, xv, xt)
		seqVal = &keys
		iterPos, iterDom = e.lastIterPos, e.lastIterDom
		n = SlcLen(keys.T)
		mapAtEntry := e.mapValue(st, xv, xt)
		elemAt = func(st *State, i Term) (Val, Val) {
			k := Val{T: Select(SlcArr(keys.T), i), GT: xt.Key()}
			v := Val{T: Select(MapVal(mapAtEntry), k.T), GT: xt.Elem()}
			e.typeFacts(st, v)
			return k, v
		}
	case *types.Signature:
		e.rangeFunc(st, s, xv, label)
		return
	default:
		e.fail(s.Pos(), "range over %s", xv.GT)
	}
	_ = seqVal
	keyName := ""
	if keyObj != nil {
		keyName = keyObj.Name()
	}
	_, isMap := xv.GT.Underlying().(*types.Map)
	loopEntry := st.clone()
	env := func(st *State) *cenv {
		extra := map[string]Val{"idx": st.vars[idx]}
		if keyName != "" && !isMap {
			extra[keyName] = st.vars[idx]
		}
		if seqVal != nil {
			extra["iter"] = *seqVal
		} else if isSlcSort(xv.T.Sort) {
			extra["iter"] = xv // the slice being ranged over (evaluated once, before the loop)
		}
		env := e.loopEnv(st, s.Body.Pos(), extra)
		env.loopOld = loopEntry
		return env
	}
	if seqVal != nil {
		// visited(k): key k of the map has been iterated over already (also visible in nested loops)
		e.visitedStack = append(e.visitedStack, func(s0 *State, k Term) Term {
			cur, ok := s0.vars[idx]
			if !ok {
				return False
			}
			return And(Select(iterDom, k), Lt(T(SInt, fmt.Sprintf("(%s %s)", iterPos, k.S)), cur.T))
		})
		defer func() { e.visitedStack = e.visitedStack[:len(e.visitedStack)-1] }()
	}
	// automatic bounds invariant
	bound := func(st *State) Term {
		i := st.vars[idx].T
		return And(Le(IntLit(0), i), Le(i, n))
	}
	e.checkInvs(st, li, "init", env)
	e.pendingHeapNames, e.pendingPos = li.heapNames, li.pos
	e.pendingFieldOnly = li.fieldOnly
	e.havocVars(st, li.assigned, li.heapW, "loop at "+e.posStr(li.pos))
	e.ghostEffects(st, func(s0 *State) {
		b := e.fork(s0, Lt(s0.vars[idx].T, n))
		k, v := elemAt(b, b.vars[idx].T)
		if keyObj != nil {
			b.vars[keyObj] = Val{T: k.T, GT: keyObj.Type()}
		}
		if valObj != nil {
			b.vars[valObj] = Val{T: v.T, GT: valObj.Type()}
		}
		e.stmt(b, s.Body)
		e.setState(s0, b)
	})
	e.assume(st, bound(st))
	e.assumeInvs(st, li, env)
	c := Lt(st.vars[idx].T, n)
	bodySt := e.fork(st, c)
	exitSt := e.fork(st, Not(c))
	k, v := elemAt(bodySt, bodySt.vars[idx].T)
	if keyObj != nil {
		bodySt.vars[keyObj] = Val{T: k.T, GT: keyObj.Type()}
	}
	if valObj != nil {
		bodySt.vars[valObj] = Val{T: v.T, GT: valObj.Type(), Orig: nil}
	}
	f := e.top()
	jf := &jumpFrame{label: label, isLoop: true}
	f.jumps = append(f.jumps, jf)
	e.stmt(bodySt, s.Body)
	f.jumps = f.jumps[:len(f.jumps)-1]
	cont := e.merge(append([]*State{bodySt}, jf.continues...)...)
	if !cont.dead {
		cont.vars[idx] = Val{T: Add(cont.vars[idx].T, IntLit(1)), GT: types.Typ[types.Int]}
		e.checkInvs(cont, li, "preserve", env)
	}
	// ghost `completedrange`: the number of elements of the range loop that last ran to completion on this
	// path (so a later clause can say "the loop over all n elements was completed": counter == completedrange)
	if tc := e.frames[0].contract; tc != nil && tc.usesGhost("completedrange") && !exitSt.dead {
		exitSt.ghosts["g:completedrange"] = Val{T: n, GT: types.Typ[types.Int]}
	}
	outs := append([]*State{exitSt}, jf.breaks...)
	e.setState(st, e.merge(outs...))
	e.checkLoopExit(st, li, env)
	delete(st.vars, idx)
}

// rangeFunc handles `for x := range seq` where seq is an iterator function: the yielded values are an
// arbitrary finite sequence (assumed contract of the producer), so the body runs on an arbitrary element.
func (e *Exec) rangeFunc(st *State, s *ast.RangeStmt, xv Val, label string) {
	sig := xv.GT.Underlying().(*types.Signature)
	yield, ok := sig.Params().At(0).Type().Underlying().(*types.Signature)
	if !ok {
		e.fail(s.Pos(), "range over function of unexpected shape")
	}
	e.note("range over iterator function: yielded values form an arbitrary sequence at " + e.posStr(s.Pos()))
	info := e.info()
	hdr := "range " + e.src(s.X)
	ord := fmt.Sprintf("loop#%d", e.top().loopN)
	li := &loopInfo{key: ord, invs: e.findInvs(ord, hdr), pos: s.Pos()}
	li.assigned, li.heapW = e.assignedIn(s.Body)
	li.heapNames = e.takeHeapNames()
	li.fieldOnly = e.takeFieldOnly()
	env := func(st *State) *cenv { return e.loopEnv(st, s.Body.Pos(), nil) }
	e.checkInvs(st, li, "init", env)
	e.pendingHeapNames, e.pendingPos = li.heapNames, li.pos
	e.pendingFieldOnly = li.fieldOnly
	e.havocVars(st, li.assigned, li.heapW, "loop at "+e.posStr(li.pos))
	e.assumeInvs(st, li, env)
	more := e.sc.Fresh("itermore", SBool)
	bodySt := e.fork(st, more)
	exitSt := e.fork(st, Not(more))
	bind := func(x ast.Expr, i int) {
		if x == nil || i >= yield.Params().Len() {
			return
		}
		id := x.(*ast.Ident)
		if id.Name == "_" {
			return
		}
		obj := info.Defs[id]
		if obj == nil {
			obj = info.Uses[id]
		}
		bodySt.vars[obj] = e.freshVal(id.Name, yield.Params().At(i).Type())
	}
	bind(s.Key, 0)
	bind(s.Value, 1)
	f := e.top()
	jf := &jumpFrame{label: label, isLoop: true}
	f.jumps = append(f.jumps, jf)
	e.stmt(bodySt, s.Body)
	f.jumps = f.jumps[:len(f.jumps)-1]
	cont := e.merge(append([]*State{bodySt}, jf.continues...)...)
	if !cont.dead {
		e.checkInvs(cont, li, "preserve", env)
	}
	e.setState(st, e.merge(append([]*State{exitSt}, jf.breaks...)...))
}
