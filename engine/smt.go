package main

// SMT-LIB term construction, sort registry, solver portfolio and model parsing.

import (
	"bytes"
	"context"
	"fmt"
	"os"
	"os/exec"
	"path/filepath"
	"sort"
	"strconv"
	"strings"
	"sync"
	"time"
)

// Term is an SMT-LIB term as text together with its sort (also text).
type Term struct {
	S    string
	Sort string
}

func (t Term) String() string { return t.S }

const (
	SInt    = "Int"
	SBool   = "Bool"
	SString = "String"
)

func T(sort, s string) Term { return Term{S: s, Sort: sort} }
func IntLit(n int64) Term {
	if n < 0 {
		return T(SInt, fmt.Sprintf("(- %d)", -n))
	}
	return T(SInt, strconv.FormatInt(n, 10))
}
func IntLitS(s string) Term {
	if strings.HasPrefix(s, "-") {
		return T(SInt, "(- "+s[1:]+")")
	}
	return T(SInt, s)
}
func BoolLit(b bool) Term {
	if b {
		return T(SBool, "true")
	}
	return T(SBool, "false")
}

var True = BoolLit(true)
var False = BoolLit(false)

// StrLit builds an SMT-LIB 2.6 string literal; bytes outside printable ASCII use \u{..}.
func StrLit(s string) Term {
	var b strings.Builder
	b.WriteByte('"')
	for i := 0; i < len(s); i++ {
		c := s[i]
		switch {
		case c == '"':
			b.WriteString(`""`)
		case c == '\\':
			b.WriteString(`\u{5c}`)
		case c >= 0x20 && c < 0x7f:
			b.WriteByte(c)
		default:
			fmt.Fprintf(&b, `\u{%x}`, c)
		}
	}
	b.WriteByte('"')
	return T(SString, b.String())
}

func App(sort, f string, args ...Term) Term {
	var b strings.Builder
	b.WriteByte('(')
	b.WriteString(f)
	for _, a := range args {
		b.WriteByte(' ')
		b.WriteString(a.S)
	}
	b.WriteByte(')')
	return T(sort, b.String())
}

func Not(a Term) Term {
	switch a.S {
	case "true":
		return False
	case "false":
		return True
	}
	if strings.HasPrefix(a.S, "(not ") && balancedTail(a.S[5:len(a.S)-1]) {
		return T(SBool, a.S[5:len(a.S)-1])
	}
	return App(SBool, "not", a)
}

func balancedTail(s string) bool {
	d := 0
	inStr := false
	for i := 0; i < len(s); i++ {
		c := s[i]
		if inStr {
			if c == '"' {
				inStr = false
			}
			continue
		}
		switch c {
		case '"':
			inStr = true
		case '(':
			d++
		case ')':
			d--
			if d < 0 {
				return false
			}
			if d == 0 && i != len(s)-1 {
				return false
			}
		case ' ':
			if d == 0 {
				return false
			}
		}
	}
	return d == 0
}

func And(ts ...Term) Term {
	var keep []Term
	for _, t := range ts {
		if t.S == "true" {
			continue
		}
		if t.S == "false" {
			return False
		}
		keep = append(keep, t)
	}
	switch len(keep) {
	case 0:
		return True
	case 1:
		return keep[0]
	}
	return App(SBool, "and", keep...)
}

func Or(ts ...Term) Term {
	var keep []Term
	for _, t := range ts {
		if t.S == "false" {
			continue
		}
		if t.S == "true" {
			return True
		}
		keep = append(keep, t)
	}
	switch len(keep) {
	case 0:
		return False
	case 1:
		return keep[0]
	}
	return App(SBool, "or", keep...)
}

func Implies(a, b Term) Term {
	if a.S == "true" {
		return b
	}
	if a.S == "false" || b.S == "true" {
		return True
	}
	return App(SBool, "=>", a, b)
}

func Eq(a, b Term) Term {
	if a.S == b.S {
		return True
	}
	return App(SBool, "=", a, b)
}

func Ite(c, a, b Term) Term {
	if c.S == "true" {
		return a
	}
	if c.S == "false" {
		return b
	}
	if a.S == b.S {
		return a
	}
	return App(a.Sort, "ite", c, a, b)
}

func Add(a, b Term) Term { return App(SInt, "+", a, b) }
func Sub(a, b Term) Term { return App(SInt, "-", a, b) }
func Lt(a, b Term) Term  { return App(SBool, "<", a, b) }
func Le(a, b Term) Term  { return App(SBool, "<=", a, b) }
func Ge(a, b Term) Term  { return App(SBool, ">=", a, b) }
func Gt(a, b Term) Term  { return App(SBool, ">", a, b) }

func ArraySort(k, v string) string { return "(Array " + k + " " + v + ")" }
func Select(a, i Term) Term {
	return App(arrayValSort(a.Sort), "select", a, i)
}
func Store(a, i, v Term) Term { return App(a.Sort, "store", a, i, v) }

// arrayValSort extracts V from "(Array K V)".
func arrayValSort(s string) string {
	parts := splitSexp(s)
	if len(parts) == 3 && parts[0] == "Array" {
		return parts[2]
	}
	panic("not an array sort: " + s)
}
func arrayKeySort(s string) string {
	parts := splitSexp(s)
	if len(parts) == 3 && parts[0] == "Array" {
		return parts[1]
	}
	panic("not an array sort: " + s)
}

// splitSexp splits "(a b (c d))" into top-level items [a, b, (c d)].
func splitSexp(s string) []string {
	s = strings.TrimSpace(s)
	if !strings.HasPrefix(s, "(") {
		return []string{s}
	}
	s = s[1 : len(s)-1]
	var out []string
	d := 0
	start := -1
	inStr := false
	for i := 0; i < len(s); i++ {
		c := s[i]
		if inStr {
			if c == '"' {
				if i+1 < len(s) && s[i+1] == '"' {
					i++
					continue
				}
				inStr = false
				if d == 0 {
					out = append(out, s[start:i+1])
					start = -1
				}
			}
			continue
		}
		switch c {
		case '"':
			inStr = true
			if start < 0 {
				start = i
			}
		case '(':
			if d == 0 && start < 0 {
				start = i
			}
			d++
		case ')':
			d--
			if d == 0 {
				out = append(out, s[start:i+1])
				start = -1
			}
		case ' ', '\n', '\t', '\r':
			if d == 0 && start >= 0 {
				out = append(out, s[start:i])
				start = -1
			}
		default:
			if start < 0 {
				start = i
			}
		}
	}
	if start >= 0 {
		out = append(out, s[start:])
	}
	return out
}

// Slices: parametric datatype (Slc X) = mk_slc(arr, len, nn).
func SlcSort(elem string) string { return "(Slc " + elem + ")" }
func slcElem(s string) string {
	parts := splitSexp(s)
	if len(parts) == 2 && parts[0] == "Slc" {
		return parts[1]
	}
	panic("not a slice sort: " + s)
}
func isSlcSort(s string) bool { return strings.HasPrefix(s, "(Slc ") }
func SlcArr(s Term) Term      { return App(ArraySort(SInt, slcElem(s.Sort)), "slc_arr", s) }
func SlcLen(s Term) Term      { return App(SInt, "slc_len", s) }
func SlcNN(s Term) Term       { return App(SBool, "slc_nn", s) }
func MkSlc(elem string, arr, ln, nn Term) Term {
	return T(SlcSort(elem), fmt.Sprintf("((as mk_slc %s) %s %s %s)", SlcSort(elem), arr.S, ln.S, nn.S))
}

// Maps (value part; Go maps are references into a heap of these).
func MapSort(k, v string) string { return "(MapV " + k + " " + v + ")" }
func isMapVSort(s string) bool   { return strings.HasPrefix(s, "(MapV ") }
func mapKV(s string) (string, string) {
	parts := splitSexp(s)
	if len(parts) == 3 && parts[0] == "MapV" {
		return parts[1], parts[2]
	}
	panic("not a map sort: " + s)
}
func MapDom(m Term) Term {
	k, _ := mapKV(m.Sort)
	return App(ArraySort(k, SBool), "map_dom", m)
}
func MapVal(m Term) Term {
	k, v := mapKV(m.Sort)
	return App(ArraySort(k, v), "map_val", m)
}
func MkMap(k, v string, dom, val Term) Term {
	return T(MapSort(k, v), fmt.Sprintf("((as mk_map %s) %s %s)", MapSort(k, v), dom.S, val.S))
}

const prelude = `(declare-datatypes ((Slc 1)) ((par (X) ((mk_slc (slc_arr (Array Int X)) (slc_len Int) (slc_nn Bool))))))
(declare-datatypes ((MapV 2)) ((par (K V) ((mk_map (map_dom (Array K Bool)) (map_val (Array K V)))))))
`

// ---------------------------------------------------------------------------------------
// Script: an ordered list of declarations and assertions.

type Script struct {
	decls    []string // declarations (sorts, datatypes, consts, funs), in order
	declared map[string]bool
	asserts  []string
	counter  int
	binders  int // > 0 while a contract quantifier body (or a spec body) is being evaluated
	// consts: name -> sort, for model extraction
	consts     map[string]string
	seenAssert map[string]bool
	assertSyms map[int][]string
	pruneMu    sync.Mutex
}

func NewScript() *Script {
	return &Script{declared: map[string]bool{}, consts: map[string]string{}}
}

func (s *Script) Decl(key, text string) {
	if s.declared[key] {
		return
	}
	s.declared[key] = true
	s.decls = append(s.decls, text)
}

func (s *Script) Fresh(prefix, sort string) Term {
	s.counter++
	name := fmt.Sprintf("%s!%d", sanitize(prefix), s.counter)
	name = "|" + name + "|"
	s.decls = append(s.decls, fmt.Sprintf("(declare-const %s %s)", name, sort))
	s.consts[name] = sort
	return T(sort, name)
}

func (s *Script) Const(name, sort string) Term {
	q := "|" + sanitize(name) + "|"
	if !s.declared["const:"+q] {
		s.declared["const:"+q] = true
		s.decls = append(s.decls, fmt.Sprintf("(declare-const %s %s)", q, sort))
		s.consts[q] = sort
	}
	return T(sort, q)
}

func (s *Script) Fun(name string, args []string, ret string) string {
	q := "|" + sanitize(name) + "|"
	if !s.declared["fun:"+q] {
		s.declared["fun:"+q] = true
		s.decls = append(s.decls, fmt.Sprintf("(declare-fun %s (%s) %s)", q, strings.Join(args, " "), ret))
	}
	return q
}

func sanitize(s string) string {
	return strings.Map(func(r rune) rune {
		if r == '|' || r == '\\' {
			return '_'
		}
		if r == ' ' || r == '\t' || r == '\n' {
			return -1 // quoted symbols with blanks would confuse the s-expression splitter
		}
		if r == '(' || r == ')' || r == '"' {
			return '_'
		}
		return r
	}, s)
}

func (s *Script) Assert(t Term) {
	if t.S == "true" {
		return
	}
	if s.binders > 0 && strings.Contains(t.S, "?") {
		// evaluated under a quantifier binder: the fact may mention bound variables (named x?N) and cannot be
		// asserted globally; dropping it only loses information
		return
	}
	if len(t.S) < 200 {
		// short facts (type ranges, allocation bounds) are re-asserted at every use: keep one copy
		if s.seenAssert == nil {
			s.seenAssert = map[string]bool{}
		}
		if s.seenAssert[t.S] {
			return
		}
		s.seenAssert[t.S] = true
	}
	s.asserts = append(s.asserts, "(assert "+t.S+")")
}

func (s *Script) Mark() (int, int) { return len(s.decls), len(s.asserts) }

// Query renders a check-sat query using the first nd decls / na asserts plus extra assertions.
func (s *Script) Query(nd, na int, extra []Term, getModelOf []string) string {
	var b strings.Builder
	b.WriteString(prelude)
	for _, d := range s.decls[:nd] {
		b.WriteString(d)
		b.WriteByte('\n')
	}
	for _, a := range s.asserts[:na] {
		b.WriteString(a)
		b.WriteByte('\n')
	}
	for _, e := range extra {
		b.WriteString("(assert " + e.S + ")\n")
	}
	b.WriteString("(check-sat)\n")
	if len(getModelOf) > 0 {
		b.WriteString("(get-value (" + strings.Join(getModelOf, " ") + "))\n")
	}
	return b.String()
}

// RelaxedQuery is Query without the quantified hypotheses (a weaker set of assumptions: its models are
// candidates only, never proofs of anything).
func (s *Script) RelaxedQuery(nd, na int, extra []Term, getModelOf []string) string {
	var b strings.Builder
	b.WriteString(prelude)
	for _, d := range s.decls[:nd] {
		b.WriteString(d)
		b.WriteByte('\n')
	}
	for _, a := range s.asserts[:na] {
		if strings.Contains(a, "(forall ") || strings.Contains(a, "(exists ") {
			continue
		}
		b.WriteString(a)
		b.WriteByte('\n')
	}
	for _, e := range extra {
		b.WriteString("(assert " + e.S + ")\n")
	}
	b.WriteString("(check-sat)\n")
	if len(getModelOf) > 0 {
		b.WriteString("(get-value (" + strings.Join(getModelOf, " ") + "))\n")
	}
	return b.String()
}

// ---------------------------------------------------------------------------------------
// Solvers

type SolveResult struct {
	Status string // unsat | sat | unknown | timeout | error
	Solver string
	Time   float64
	Output string
	Model  map[string]string
	All    map[string]string // solver -> status (thorough mode)
}

type solverSpec struct {
	name string
	args func(file string, tmo int) []string
	pre  string
}

var solvers = []solverSpec{
	{"z3-4.8.12", func(f string, t int) []string { return []string{"z3", fmt.Sprintf("-T:%d", t), f} }, ""},
	{"z3-5.1.0", func(f string, t int) []string { return []string{"z3-new", fmt.Sprintf("-T:%d", t), f} }, ""},
	{"cvc5-1.0.3", func(f string, t int) []string {
		return []string{"cvc5", "--strings-exp", "--produce-models", fmt.Sprintf("--tlimit=%d", t*1000), f}
	}, "(set-logic ALL)\n"},
}

var solveSem = make(chan struct{}, 12)

// Solve races the solver portfolio on a query. If all is true every solver is run to completion
// (thorough mode) and disagreement is reported as status "error".
func Solve(dir, name, query string, timeoutS int, all bool, seed int) SolveResult {
	os.MkdirAll(dir, 0o755)
	base := filepath.Join(dir, fileSafe(name))
	type res struct {
		st, out string
		t       float64
		idx     int
	}
	ctx, cancel := context.WithCancel(context.Background())
	defer cancel()
	ch := make(chan res, len(solvers))
	order := make([]int, len(solvers))
	for i := range order {
		order[i] = (i + seed) % len(solvers)
	}
	var wg sync.WaitGroup
	for _, i := range order {
		sp := solvers[i]
		file := base + "." + sp.name + ".smt2"
		q := sp.pre + query
		if sp.name == "cvc5-1.0.3" {
			q = "(set-option :produce-models true)\n" + q
		}
		if err := os.WriteFile(file, []byte(q), 0o644); err != nil {
			return SolveResult{Status: "error", Output: err.Error()}
		}
		wg.Add(1)
		go func(i int, sp solverSpec, file string) {
			defer wg.Done()
			solveSem <- struct{}{}
			defer func() { <-solveSem }()
			if ctx.Err() != nil {
				ch <- res{"cancelled", "", 0, i}
				return
			}
			start := time.Now()
			argv := sp.args(file, timeoutS)
			// hard wall-clock kill on top of the solver's own limit
			cctx, ccancel := context.WithTimeout(ctx, time.Duration(timeoutS+2)*time.Second)
			defer ccancel()
			cmd := exec.CommandContext(cctx, argv[0], argv[1:]...)
			var out bytes.Buffer
			cmd.Stdout = &out
			cmd.Stderr = &out
			cmd.Run()
			el := time.Since(start).Seconds()
			o := out.String()
			// solvers print warnings (e.g. about quantifier patterns) before the answer: skip them
			var kept []string
			for _, ln := range strings.Split(o, "\n") {
				if strings.HasPrefix(strings.TrimSpace(ln), "WARNING") {
					continue
				}
				kept = append(kept, ln)
			}
			o = strings.Join(kept, "\n")
			first := strings.TrimSpace(strings.SplitN(o, "\n", 2)[0])
			st := "unknown"
			switch {
			case first == "unsat":
				st = "unsat"
			case first == "sat":
				st = "sat"
			case first == "unknown":
				st = "unknown"
			case first == "timeout" || strings.Contains(o, "timeout") || strings.Contains(o, "interrupted"):
				st = "timeout"
			case ctx.Err() != nil:
				st = "cancelled"
			case first == "":
				st = "timeout"
			default:
				st = "error"
			}
			ch <- res{st, o, el, i}
		}(i, sp, file)
	}
	go func() { wg.Wait(); close(ch) }()
	final := SolveResult{Status: "unknown", All: map[string]string{}}
	var outs []string
	for r := range ch {
		nm := solvers[r.idx].name
		final.All[nm] = r.st
		if r.st == "error" {
			outs = append(outs, nm+": "+firstLines(r.out, 3))
		}
		if r.st == "sat" || r.st == "unsat" {
			if final.Status == "sat" || final.Status == "unsat" {
				if final.Status != r.st {
					final.Status = "error"
					final.Output = "solver disagreement: " + fmt.Sprint(final.All)
					return final
				}
				continue
			}
			final.Status = r.st
			final.Solver = nm
			final.Time = r.t
			final.Output = r.out
			if r.st == "sat" {
				final.Model = parseModel(r.out)
			}
			if !all {
				cancel()
				return final
			}
			// thorough: give the other solvers a short grace period to agree or disagree
			time.AfterFunc(5*time.Second, cancel)
		}
	}
	if final.Status != "sat" && final.Status != "unsat" {
		// unknown / timeout everywhere
		tm := false
		for _, st := range final.All {
			if st == "timeout" {
				tm = true
			}
		}
		if tm {
			final.Status = "timeout"
		}
		final.Output = strings.Join(outs, "\n")
		allErr := len(final.All) > 0
		for _, st := range final.All {
			if st != "error" {
				allErr = false
			}
		}
		if allErr {
			final.Status = "error"
		}
	}
	return final
}

func firstLines(s string, n int) string {
	ls := strings.Split(s, "\n")
	if len(ls) > n {
		ls = ls[:n]
	}
	return strings.Join(ls, " / ")
}

func fileSafe(s string) string {
	r := strings.NewReplacer("/", "_", " ", "_", "(", "", ")", "", "*", "p", "#", "-", ":", "-", "\"", "", "|", "")
	s = r.Replace(s)
	if len(s) > 150 {
		s = s[:150]
	}
	return s
}

// parseModel parses the output of (get-value (a b c)): ((a v) (b v) ...)
func parseModel(out string) map[string]string {
	m := map[string]string{}
	idx := strings.Index(out, "\n")
	if idx < 0 {
		return m
	}
	rest := strings.TrimSpace(out[idx+1:])
	if !strings.HasPrefix(rest, "(") {
		return m
	}
	// find the balanced end of the first s-expression
	end := sexpEnd(rest)
	if end < 0 {
		return m
	}
	for _, pair := range splitSexp(rest[:end]) {
		kv := splitSexp(pair)
		if len(kv) == 2 {
			m[kv[0]] = kv[1]
		}
	}
	return m
}

func sexpEnd(s string) int {
	d := 0
	inStr := false
	for i := 0; i < len(s); i++ {
		c := s[i]
		if inStr {
			if c == '"' {
				inStr = false
			}
			continue
		}
		switch c {
		case '"':
			inStr = true
		case '(':
			d++
		case ')':
			d--
			if d == 0 {
				return i + 1
			}
		}
	}
	return -1
}

// decodeSMTString turns an SMT-LIB string literal into Go bytes.
func decodeSMTString(lit string) (string, bool) {
	if len(lit) < 2 || lit[0] != '"' || lit[len(lit)-1] != '"' {
		return "", false
	}
	s := lit[1 : len(lit)-1]
	var b []byte
	for i := 0; i < len(s); i++ {
		c := s[i]
		if c == '"' && i+1 < len(s) && s[i+1] == '"' {
			b = append(b, '"')
			i++
			continue
		}
		if c == '\\' && i+1 < len(s) && s[i+1] == 'u' {
			// \u{X..} or \uXXXX
			if i+2 < len(s) && s[i+2] == '{' {
				j := strings.IndexByte(s[i:], '}')
				if j > 0 {
					v, err := strconv.ParseUint(s[i+3:i+j], 16, 32)
					if err == nil {
						if v < 256 {
							b = append(b, byte(v))
						} else {
							b = append(b, []byte(string(rune(v)))...)
						}
						i += j
						continue
					}
				}
			} else if i+5 < len(s) {
				v, err := strconv.ParseUint(s[i+2:i+6], 16, 32)
				if err == nil {
					if v < 256 {
						b = append(b, byte(v))
					} else {
						b = append(b, []byte(string(rune(v)))...)
					}
					i += 5
					continue
				}
			}
		}
		if c == '\\' && i+1 < len(s) && s[i+1] == 'x' && i+3 < len(s) {
			v, err := strconv.ParseUint(s[i+2:i+4], 16, 8)
			if err == nil {
				b = append(b, byte(v))
				i += 3
				continue
			}
		}
		b = append(b, c)
	}
	return string(b), true
}

func sortedKeys[V any](m map[string]V) []string {
	ks := make([]string, 0, len(m))
	for k := range m {
		ks = append(ks, k)
	}
	sort.Strings(ks)
	return ks
}
