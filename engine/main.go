package main

import (
	"encoding/json"
	"flag"
	"fmt"
	"os"
	"os/exec"
	"path/filepath"
	"sort"
	"strings"
	"sync"
	"time"
)

type oblResult struct {
	O   *Obligation
	R   SolveResult
	Fn  *FuncResult
	Cls string // discharged | violated | undecided | cover-ok | vacuous | canary-live | canary-dead | skipped
}

type KnownFinding struct {
	Property string `json:"property"`
	Function string `json:"function"`
	Clause   string `json:"clause"`
	Region   string `json:"region"`
	What     string `json:"what"`
	Witness  string `json:"witness,omitempty"`
	Kind     string `json:"kind,omitempty"` // "finding" (default), "fixed", or "demonstrated" (not tied to an obligation)
	Commit   string `json:"commit,omitempty"`
	Demo     string `json:"demo,omitempty"`    // demonstrated findings: test file under /verif/findings that fails on the real code
	Package  string `json:"package,omitempty"` // ... and the package directory (relative to the repository) it runs in
}

type KnownFile struct {
	Findings []KnownFinding `json:"findings"`
	Fixed    []string       `json:"fixed"`
}

func main() {
	if len(os.Args) < 2 {
		fmt.Fprintln(os.Stderr, "usage: govc check|list|claims -prop Cxx [-tier quick|thorough]")
		os.Exit(2)
	}
	cmd := os.Args[1]
	// go/packages runs `go list`: it must find the toolchain that can read /repo's go.mod, offline
	os.Setenv("PATH", "/opt/veriftools/go1.26.8/bin:"+os.Getenv("PATH"))
	for _, kv := range []string{"GOTOOLCHAIN=local", "GOFLAGS=-mod=mod", "GOPROXY=off", "GOSUMDB=off"} {
		p := strings.SplitN(kv, "=", 2)
		os.Setenv(p[0], p[1])
	}
	fs := flag.NewFlagSet(cmd, flag.ExitOnError)
	prop := fs.String("prop", "", "property id")
	tier := fs.String("tier", "quick", "quick|thorough")
	repo := fs.String("repo", "/repo", "repository root")
	verif := fs.String("verif", "/verif", "verif root")
	only := fs.String("only", "", "substring filter on obligation names (debugging)")
	dump := fs.Bool("dump", false, "print obligations")
	timeout := fs.Int("timeout", 0, "per-obligation solver timeout (s)")
	fs.Parse(os.Args[2:])
	seed := 0
	if s := os.Getenv("VERIF_SEED"); s != "" {
		fmt.Sscanf(s, "%d", &seed)
	}
	if t := os.Getenv("VERIF_TIER"); t != "" && *tier == "" {
		*tier = t
	}
	switch cmd {
	case "check", "claims", "list":
		os.Exit(runCheck(cmd, *prop, *tier, *repo, *verif, *only, *dump, *timeout, seed))
	case "selftest":
		os.Exit(runSelftest(*repo, *verif, *prop, seed))
	case "replay":
		os.Exit(runReplayFile(*repo, *verif, fs.Arg(0)))
	default:
		fmt.Fprintln(os.Stderr, "unknown command", cmd)
		os.Exit(2)
	}
}

type checkOutcome struct {
	results    []*oblResult
	funcs      []*FuncResult
	violations []string
	known      []string
	engineErr  string
	wall       float64
}

func runCheck(cmd, prop, tier, repo, verif, only string, dump bool, timeoutS, seed int) int {
	start := time.Now()
	if prop == "" {
		fmt.Fprintln(os.Stderr, "missing -prop")
		return 2
	}
	out := doCheck(prop, tier, repo, verif, only, dump, timeoutS, seed, nil, cmd == "list")
	if out.engineErr != "" {
		fmt.Fprintln(os.Stderr, "ENGINE-ERROR:", out.engineErr)
		return 2
	}
	out.wall = time.Since(start).Seconds()
	if cmd == "list" {
		return 0
	}
	if cmd == "claims" {
		return writeClaims(verif, prop, out)
	}
	return report(prop, tier, repo, verif, seed, out, only != "")
}

// doCheck generates and solves the obligations of a property. overlay substitutes file contents (selftest).
func doCheck(prop, tier, repo, verif, only string, dump bool, timeoutS, seed int, overlay map[string][]byte, listOnly bool) *checkOutcome {
	out := &checkOutcome{}
	contracts, err := loadContracts(repo)
	if err != nil {
		out.engineErr = "contract files: " + err.Error()
		return out
	}
	// a contract that is neither assumed nor attached to a property would be used at call sites without ever
	// being verified: refuse to run rather than trust it silently
	for _, p := range sortedKeys(contracts) {
		cf := contracts[p]
		for _, k := range cf.Order {
			if fc := cf.Funcs[k]; !fc.Assumed && !fc.mentionsAny() {
				out.engineErr = "contract of " + p + "." + k + " is attached to no property (tag a clause or add `property Cxx`), so nothing would verify it"
				return out
			}
		}
	}
	funcs, lemmas, sites := contractTargets(contracts, prop)
	if len(funcs) == 0 && len(lemmas) == 0 && len(sites) == 0 {
		out.engineErr = "no contracts carry property " + prop
		return out
	}
	pkgSet := map[string]bool{}
	for _, f := range funcs {
		pkgSet[f.Pkg] = true
	}
	for p := range lemmas {
		pkgSet[p] = true
	}
	for p := range sites {
		pkgSet[p] = true
	}
	var pkgPaths []string
	for p := range pkgSet {
		pkgPaths = append(pkgPaths, p)
	}
	sort.Strings(pkgPaths)
	t0 := time.Now()
	prog, err := loadProgram(repo, contracts, pkgPaths, overlay)
	for attempt := 0; err != nil && attempt < 2 && strings.Contains(err.Error(), "cache entry not found"); attempt++ {
		// the Go build cache was trimmed or rewritten by a concurrent build while export data was being read: an
		// environmental failure, not a property of the tree — load again
		time.Sleep(2 * time.Second)
		prog, err = loadProgram(repo, contracts, pkgPaths, overlay)
	}
	if err != nil {
		out.engineErr = "loading packages: " + err.Error()
		return out
	}
	fmt.Fprintf(os.Stderr, "loaded %d packages in %.1fs\n", len(prog.pkgs), time.Since(t0).Seconds())
	for _, fc := range funcs {
		out.funcs = append(out.funcs, verifyFunc(prog, fc))
	}
	for _, p := range sortedKeys(lemmas) {
		for _, lm := range lemmas[p] {
			out.funcs = append(out.funcs, verifyLemma(prog, p, lm))
		}
	}
	for _, p := range sortedKeys(sites) {
		for _, s := range sites[p] {
			out.funcs = append(out.funcs, verifySite(prog, p, s))
		}
	}
	if timeoutS == 0 {
		timeoutS = 40
		if tier == "thorough" {
			timeoutS = 90
		}
	}
	smtDir := filepath.Join(verif, "out", "smt", prop)
	os.RemoveAll(smtDir)
	var jobs []*oblResult
	for _, fr := range out.funcs {
		for _, o := range fr.Obls {
			if !o.relevant(prop, fr.Contract) {
				continue
			}
			if only != "" && !strings.Contains(o.Name, only) {
				continue
			}
			// clauses tagged "unclaimed" are true-but-slow: attempted in the thorough tier only, never counted
			if hasProp(o.Props, "unclaimed") && tier != "thorough" && only == "" {
				continue
			}
			if hasProp(o.Props, "bounded") && o.Kind == "post" {
				jobs = append(jobs, &oblResult{O: o, Fn: fr, Cls: "bounded"})
				continue
			}
			jobs = append(jobs, &oblResult{O: o, Fn: fr})
		}
	}
	if dump || listOnly {
		for _, j := range jobs {
			fmt.Printf("%-12s %s   [%s] %s\n", j.O.Kind, j.O.Name, strings.Join(j.O.Props, ","), j.O.Pos)
		}
		for _, fr := range out.funcs {
			if fr.Err != "" {
				fmt.Printf("TRANSLATION-FAILURE %s: %s (%s)\n", fr.Name, fr.Err, fr.ErrPos)
			}
		}
		if listOnly {
			return out
		}
	}
	var wg sync.WaitGroup
	sem := make(chan struct{}, 8)
	for _, j := range jobs {
		wg.Add(1)
		go func(j *oblResult) {
			defer wg.Done()
			sem <- struct{}{}
			defer func() { <-sem }()
			if j.Cls == "bounded" {
				return // executed against the real code in report()
			}
			solveObligation(j, smtDir, timeoutS, tier == "thorough", seed)
		}(j)
	}
	wg.Wait()
	out.results = jobs
	return out
}

func solveObligation(j *oblResult, smtDir string, timeoutS int, all bool, seed int) {
	o := j.O
	if o.PC.S == "false" || o.Goal.S == "true" {
		if o.ExpectSat {
			j.Cls = "vacuous"
			j.R = SolveResult{Status: "unsat", Solver: "trivial"}
		} else {
			j.Cls = "discharged"
			j.R = SolveResult{Status: "unsat", Solver: "trivial"}
		}
		return
	}
	var get []string
	for _, m := range o.Models {
		get = append(get, m.Term)
	}
	extra := []Term{o.PC, Not(o.Goal)}
	extra = append(extra, o.Extra...)
	if !o.ExpectSat && o.na > 40 {
		// first try with only the hypotheses connected to the goal (sound for `unsat`; anything else is
		// inconclusive and the full query is run)
		j.Fn.Script.pruneMu.Lock()
		pq, kept := j.Fn.Script.PrunedQuery(o.nd, o.na, extra, nil)
		j.Fn.Script.pruneMu.Unlock()
		if kept < o.na*3/4 {
			pt := timeoutS
			if pt > 6 {
				pt = 6
			}
			pr := Solve(smtDir, o.Name+".pruned", pq, pt, false, seed)
			if pr.Status == "unsat" {
				pr.Solver += " (pruned query)"
				j.R = pr
				j.Cls = "discharged"
				return
			}
		}
	}
	q := j.Fn.Script.Query(o.nd, o.na, extra, get)
	if o.ExpectSat && o.Kind == "cover" && timeoutS > 3 {
		timeoutS = 3 // covers guard against vacuity; an undecided cover is simply not counted
	}
	r := Solve(smtDir, o.Name, q, timeoutS, all && !o.ExpectSat, seed)
	j.R = r
	switch {
	case o.ExpectSat && o.Kind == "canary":
		switch r.Status {
		case "sat":
			j.Cls = "canary-live"
		case "unsat":
			j.Cls = "canary-dead"
		default:
			j.Cls = "canary-unknown"
		}
	case o.ExpectSat:
		switch r.Status {
		case "sat":
			j.Cls = "cover-ok"
		case "unsat":
			j.Cls = "vacuous"
		default:
			j.Cls = "cover-unknown"
		}
	default:
		switch r.Status {
		case "unsat":
			j.Cls = "discharged"
		case "sat":
			j.Cls = "violated"
		default:
			j.Cls = "undecided"
			// Quantified hypotheses keep solvers from answering `sat`. A model of the query WITHOUT them is
			// only a candidate, but it gives the replay something concrete to try on the real code.
			rq := j.Fn.Script.RelaxedQuery(o.nd, o.na, extra, get)
			rr := Solve(smtDir, o.Name+".relaxed", rq, 5, false, seed)
			if rr.Status == "sat" && len(rr.Model) > 0 {
				j.R.Model = rr.Model
				j.R.Output += "\n[candidate model from the quantifier-free relaxation, " + rr.Solver + "]\n" + rr.Output
			}
		}
	}
}

func claimsPath(verif, prop string) string { return filepath.Join(verif, "claims", prop+".json") }

func writeClaims(verif, prop string, out *checkOutcome) int {
	var names, notClaimed []string
	bad := 0
	for _, r := range out.results {
		switch r.Cls {
		case "discharged", "cover-ok", "canary-live", "bounded":
		default:
			notClaimed = append(notClaimed, r.O.Name)
		}
		if (r.Cls == "discharged" || r.Cls == "cover-ok" || r.Cls == "canary-live") && r.R.Time > 5.0 {
			notClaimed = append(notClaimed, r.O.Name)
		}
		switch r.Cls {
		case "bounded":
			names = append(names, r.O.Name)
		case "discharged", "cover-ok", "canary-live":
			// only obligations that discharge comfortably inside the quick budget are claimed (DESIGN §4.3)
			if r.R.Time > 5.0 {
				fmt.Printf("NOT-CLAIMED %s: discharged but slow (%.1fs by %s)\n", r.O.Name, r.R.Time, r.R.Solver)
				bad++
				continue
			}
			names = append(names, r.O.Name)
		default:
			fmt.Printf("NOT-CLAIMED %s: %s (%s %s)\n", r.O.Name, r.Cls, r.R.Status, r.R.Solver)
			bad++
		}
	}
	for _, fr := range out.funcs {
		if fr.Err != "" {
			fmt.Printf("TRANSLATION-FAILURE %s: %s (%s)\n", fr.Name, fr.Err, fr.ErrPos)
			bad++
		}
	}
	sort.Strings(names)
	os.MkdirAll(filepath.Join(verif, "claims"), 0o755)
	sort.Strings(notClaimed)
	if notClaimed == nil {
		notClaimed = []string{}
	}
	// "known_unclaimed": obligations that exist on the unchanged tree but are not claimed (slow, or covers the
	// solvers cannot decide). Anything else that shows up undecided later is NEW and is reported.
	b, _ := json.MarshalIndent(map[string]any{"property": prop, "obligations": names, "known_unclaimed": notClaimed}, "", " ")
	if err := os.WriteFile(claimsPath(verif, prop), append(b, '\n'), 0o644); err != nil {
		fmt.Fprintln(os.Stderr, err)
		return 2
	}
	fmt.Printf("claims for %s: %d obligations written, %d not claimed\n", prop, len(names), bad)
	return 0
}

func loadClaims(verif, prop string) ([]string, bool) {
	c, _, ok := loadClaims2(verif, prop)
	return c, ok
}

func loadClaims2(verif, prop string) ([]string, map[string]bool, bool) {
	b, err := os.ReadFile(claimsPath(verif, prop))
	if err != nil {
		return nil, nil, false
	}
	var c struct {
		Obligations    []string `json:"obligations"`
		KnownUnclaimed []string `json:"known_unclaimed"`
	}
	if json.Unmarshal(b, &c) != nil {
		return nil, nil, false
	}
	ku := map[string]bool{}
	for _, n := range c.KnownUnclaimed {
		ku[n] = true
	}
	return c.Obligations, ku, true
}

func loadKnown(verif string) *KnownFile {
	k := &KnownFile{}
	b, err := os.ReadFile(filepath.Join(verif, "known_findings.json"))
	if err != nil {
		return k
	}
	json.Unmarshal(b, k)
	return k
}

func report(prop, tier, repo, verif string, seed int, out *checkOutcome, partial bool) int {
	claims, knownUnclaimed, haveClaims := loadClaims2(verif, prop)
	claimed := map[string]bool{}
	for _, c := range claims {
		claimed[c] = true
	}
	known := loadKnown(verif)
	replayDir := filepath.Join(verif, "out", "replay")
	os.MkdirAll(replayDir, 0o755)
	seen := map[string]bool{}
	nViol := 0
	boundedOK = nil
	var lines []string
	violation := func(o string, file string, noInput bool) {
		nViol++
		l := fmt.Sprintf("VIOLATION property=%s replay=%s", prop, file)
		if noInput {
			l += " no-failing-input-found"
		}
		lines = append(lines, l)
	}
	discharged, total := 0, 0
	var perObl []map[string]any
	solverTime := 0.0
	bySolver := map[string]int{}
	for _, r := range out.results {
		seen[r.O.Name] = true
		entry := map[string]any{"name": r.O.Name, "kind": r.O.Kind, "result": r.Cls, "solver": r.R.Solver, "time_s": round3(r.R.Time)}
		if tier == "thorough" && len(r.R.All) > 0 {
			entry["all_solvers"] = r.R.All
		}
		perObl = append(perObl, entry)
		solverTime += r.R.Time
		switch r.Cls {
		case "discharged":
			total++
			discharged++
			bySolver[r.R.Solver]++
		case "cover-ok":
			total++
			discharged++
			bySolver[r.R.Solver]++
		case "cover-unknown", "canary-unknown", "canary-dead":
			// not counted
		case "canary-live":
			// the defect is still present: it must be listed
			found := false
			for _, k := range known.Findings {
				if k.Property == prop && k.Function == r.Fn.Name && k.Region == r.O.Region && (k.Clause == "" || strings.HasSuffix(r.O.Name, ":"+k.Clause)) {
					found = true
					fmt.Printf("KNOWN-FINDING: property=%s %s\n", prop, k.What)
				}
			}
			if !found {
				total++
				file := writeReplay(replayDir, prop, r, repo, verif, "canary of an unlisted region is satisfiable")
				violation(r.O.Name, file, true)
			}
		case "vacuous":
			total++
			if !haveClaims || claimed[r.O.Name] {
				file := writeReplay(replayDir, prop, r, repo, verif, "vacuity: the precondition or the function exit is unreachable")
				violation(r.O.Name, file, true)
			}
		case "violated":
			total++
			file, confirmed := replayViolation(replayDir, prop, r, repo, verif)
			violation(r.O.Name, file, !confirmed)
		case "bounded":
			// a bounded stand-in: the clause is executed against the real function on an enumerated input
			// space; it is never counted as proved
			file, failed := replayViolation(replayDir, prop, r, repo, verif)
			cases := replayCases[r.O.Name]
			if failed {
				total++
				violation(r.O.Name, file, false)
			} else if cases == 0 {
				// the stand-in could not run: treat like an undecided claimed obligation
				total++
				violation(r.O.Name, file, true)
			} else {
				boundedOK = append(boundedOK, map[string]any{"obligation": r.O.Name, "clause": r.O.Clause, "cases": cases,
					"bound": "160 candidate inputs per run: strings from the function's literals and a fixed pool, small ints, slices of length <= 2; seeded by VERIF_SEED"})
			}
		case "undecided":
			total++
			// claimed and no longer discharged, or NEW (generated by the current source only, e.g. a `never` clause
			// that became reachable) and not discharged: both are reported. Known-unclaimed ones are only noted.
			isNew := haveClaims && !partial && !claimed[r.O.Name] && !knownUnclaimed[r.O.Name] && r.O.Kind != "cover" && !hasProp(r.O.Props, "unclaimed")
			if !haveClaims || claimed[r.O.Name] || isNew {
				file, confirmed := replayViolation(replayDir, prop, r, repo, verif)
				violation(r.O.Name, file, !confirmed)
			} else {
				total--
				fmt.Printf("UNCLAIMED-UNDECIDED %s (%s)\n", r.O.Name, r.R.Status)
			}
		}
	}
	// findings demonstrated against the real code that no obligation of this property can express (so the check
	// cannot re-detect them): listed on every run; the thorough tier re-runs the demonstration
	for _, k := range known.Findings {
		if k.Property != prop || k.Kind != "demonstrated" {
			continue
		}
		fmt.Printf("KNOWN-FINDING: property=%s %s\n", prop, k.What)
		if tier == "thorough" && k.Demo != "" {
			if stillFails, out := runDemo(repo, verif, k.Package, k.Demo); !stillFails {
				fmt.Printf("NOTE: the demonstration of that finding (%s) no longer fails on this tree: %s\n", k.Demo, firstLines(out, 2))
			}
		}
	}
	translationFailures := []string{}
	for _, fr := range out.funcs {
		if fr.Missing {
			total++
			file := writeReplayText(replayDir, prop, fr.Name+"#missing", "function under contract not found: "+fr.Name)
			violation(fr.Name, file, true)
			continue
		}
		if fr.Err != "" {
			translationFailures = append(translationFailures, fmt.Sprintf("%s: %s (%s)", fr.Name, fr.Err, fr.ErrPos))
			fmt.Printf("UNDECIDED translation-failure %s: %s (%s)\n", fr.Name, fr.Err, fr.ErrPos)
		}
	}
	failedFns := map[string]bool{}
	fnErr := map[string]string{}
	for _, fr := range out.funcs {
		if fr.Err != "" {
			failedFns[fr.Name] = true
			fnErr[fr.Name] = fr.Err
		}
	}
	if haveClaims && !partial {
		for _, c := range claims {
			if seen[c] {
				continue
			}
			fn := c
			if i := strings.Index(c, "#"); i >= 0 {
				fn = c[:i]
			}
			why := "claimed obligation is no longer generated from the current source: " + c
			if failedFns[fn] {
				// the obligation was discharged on the unchanged tree; now the contract of its function cannot even be
				// applied to the source (a name it mentions is gone, or the body left the supported subset)
				why = "claimed obligation can no longer be generated: the contract of " + fn + " does not apply to the current source (" + fnErr[fn] + ")"
			}
			total++
			file := writeReplayText(replayDir, prop, c, why)
			violation(c, file, true)
		}
	}
	if total == 0 && len(translationFailures) == 0 {
		fmt.Fprintln(os.Stderr, "ENGINE-ERROR: zero obligations generated")
		return 2
	}
	for _, l := range lines {
		fmt.Println(l)
	}
	if !partial {
		writeEvidence(prop, tier, verif, seed, out, perObl, total, discharged, solverTime, bySolver, translationFailures, nViol)
	}
	fmt.Printf("%s %s: %d/%d obligations discharged, %d violations, %.1fs\n", prop, tier, discharged, total, nViol, out.wall)
	if nViol > 0 {
		return 1
	}
	return 0
}

func round3(f float64) float64 { return float64(int(f*1000+0.5)) / 1000 }

func writeReplayText(dir, prop, name, text string) string {
	file := filepath.Join(dir, prop+"-"+fileSafe(name)+".json")
	b, _ := json.MarshalIndent(map[string]any{"property": prop, "obligation": name, "reason": text}, "", " ")
	os.WriteFile(file, b, 0o644)
	return file
}

func writeReplay(dir, prop string, r *oblResult, repo, verif, reason string) string {
	file := filepath.Join(dir, prop+"-"+fileSafe(r.O.Name)+".json")
	model := map[string]string{}
	norm := map[string]string{}
	for k, v := range r.R.Model {
		norm[strings.ReplaceAll(k, "|", "")] = v
	}
	for _, m := range r.O.Models {
		if v, ok := norm[strings.ReplaceAll(m.Term, "|", "")]; ok {
			model[m.Label] = v
		}
	}
	b, _ := json.MarshalIndent(map[string]any{
		"property": prop, "obligation": r.O.Name, "kind": r.O.Kind, "function": r.Fn.Name, "clause": r.O.Clause, "position": r.O.Pos,
		"reason": reason, "solver": r.R.Solver, "status": r.R.Status, "all_solvers": r.R.All, "solver_output": truncate(r.R.Output, 4000), "model": model,
	}, "", " ")
	os.WriteFile(file, b, 0o644)
	return file
}

func truncate(s string, n int) string {
	if len(s) > n {
		return s[:n] + "..."
	}
	return s
}

func writeEvidence(prop, tier, verif string, seed int, out *checkOutcome, perObl []map[string]any, total, discharged int, solverTime float64,
	bySolver map[string]int, translationFailures []string, nViol int) {
	notes := map[string]int{}
	trusted := map[string]int{}
	inlined := map[string]int{}
	var fns []map[string]any
	for _, fr := range out.funcs {
		for k, v := range fr.Notes {
			notes[k] += v
		}
		for k, v := range fr.Trusted {
			trusted[k] += v
		}
		for k, v := range fr.Inlined {
			inlined[k] += v
		}
		n := 0
		for _, r := range out.results {
			if r.Fn == fr {
				n++
			}
		}
		kind := "function"
		if fr.IsLemma {
			kind = "lemma"
		}
		fns = append(fns, map[string]any{"name": fr.Name, "kind": kind, "obligations": n, "translation_error": fr.Err})
	}
	var samples []any
	for i, r := range out.results {
		if i >= 40 {
			break
		}
		if r.O.Kind == "post" || r.O.Kind == "lemma" || len(samples) < 3 {
			samples = append(samples, map[string]any{"obligation": r.O.Name, "kind": r.O.Kind, "clause": r.O.Clause, "path_condition": truncate(r.O.PC.S, 200), "goal": truncate(r.O.Goal.S, 400)})
		}
		if len(samples) >= 6 {
			break
		}
	}
	trustedBase := []string{
		"govc VC generator (this engine): symbolic execution over go/ast + go/types, state merging, loop cutting",
		"SMT solvers z3 4.8.12, z3 5.1.0, cvc5 1.0.3",
		"Go type checker (go/types, go1.26.8)",
		"machine integers treated as mathematical integers (no wrap-around) unless opt overflow=on",
		"sequential execution: goroutines, channel operations and locks are not modelled",
		"partial correctness: termination is not proved",
	}
	for _, k := range sortedKeys(trusted) {
		trustedBase = append(trustedBase, fmt.Sprintf("%s (used %d×)", k, trusted[k]))
	}
	assumptions := []string{}
	for _, k := range sortedKeys(notes) {
		assumptions = append(assumptions, fmt.Sprintf("%s (%d×)", k, notes[k]))
	}
	for _, k := range sortedKeys(inlined) {
		assumptions = append(assumptions, fmt.Sprintf("callee %s inlined (its body is verified through the caller's obligations; its own panics are not checked)", k))
	}
	level := "proof"
	cov := map[string]any{
		"obligations": total, "discharged": discharged,
		"checker_cmd":  fmt.Sprintf("/verif/check %s --tier %s  (govc check -prop %s -tier %s; per-obligation SMT-LIB files under /verif/out/smt/%s)", prop, tier, prop, tier, prop),
		"trusted_base": trustedBase, "functions_under_contract": fns, "per_obligation": perObl,
		"solver_time_s": round3(solverTime), "discharged_by_solver": bySolver, "samples": samples,
		"translation_failures": translationFailures,
		"bounded_standins":     boundedOK,
	}
	if total == 0 || discharged == 0 {
		level = "other"
		cov["explanation"] = "no obligation could be generated or discharged on this run (translation failures: " + strings.Join(translationFailures, "; ") + ")"
	}
	if len(translationFailures) > 0 {
		cov["explanation"] = "some functions under contract left the supported Go subset and are undecided on this run: " + strings.Join(translationFailures, "; ")
	}
	ev := map[string]any{
		"property_id": prop, "tier": tier, "seed": seed, "level": level, "coverage": cov, "assumptions": assumptions,
		"wall_s": round3(out.wall), "violations": nViol,
	}
	os.MkdirAll(filepath.Join(verif, "evidence"), 0o755)
	b, _ := json.MarshalIndent(ev, "", " ")
	os.WriteFile(filepath.Join(verif, "evidence", prop+".json"), append(b, '\n'), 0o644)
}

// runDemo runs a demonstration test (a *_test.go kept under /verif/findings) inside its package of the
// repository through an overlay that hides the package's own tests. It reports whether the test still fails.
func runDemo(repo, verif, pkgDir, demo string) (bool, string) {
	dir := filepath.Join(repo, pkgDir)
	tmp, err := os.MkdirTemp("/var/tmp", "govc-demo")
	if err != nil {
		return true, err.Error()
	}
	defer os.RemoveAll(tmp)
	empty := filepath.Join(tmp, "empty_test.go")
	pkgName := filepath.Base(pkgDir)
	if b, err := os.ReadFile(filepath.Join(verif, demo)); err == nil {
		for _, ln := range strings.Split(string(b), "\n") {
			if strings.HasPrefix(ln, "package ") {
				pkgName = strings.TrimSpace(strings.TrimPrefix(ln, "package "))
				break
			}
		}
	}
	os.WriteFile(empty, []byte("package "+pkgName+"\n"), 0o644)
	rep := map[string]string{filepath.Join(dir, "zz_verif_demo_test.go"): filepath.Join(verif, demo)}
	if ents, err := os.ReadDir(dir); err == nil {
		for _, en := range ents {
			if strings.HasSuffix(en.Name(), "_test.go") {
				rep[filepath.Join(dir, en.Name())] = empty
			}
		}
	}
	ov, _ := json.Marshal(map[string]any{"Replace": rep})
	ovf := filepath.Join(tmp, "ov.json")
	os.WriteFile(ovf, ov, 0o644)
	cmd := exec.Command("go", "test", "-overlay", ovf, "-vet=off", "-count=1", "-timeout", "120s", "./"+pkgDir+"/")
	cmd.Dir = repo
	cmd.Env = append(os.Environ(), "GOFLAGS=-mod=mod", "GOPROXY=off", "GOSUMDB=off", "GOTOOLCHAIN=local")
	out, err := cmd.CombinedOutput()
	return err != nil, string(out)
}
