package main

// Loading of /repo packages (with -tags verif) and of the contract files.

import (
	"fmt"
	"go/ast"
	"go/token"
	"go/types"
	"os"
	"path/filepath"
	"sort"
	"strings"

	"golang.org/x/tools/go/packages"
)

const modulePath = "github.com/thought-machine/please"

type Program struct {
	repo      string
	fset      *token.FileSet
	pkgs      map[string]*packages.Package
	contracts map[string]*ContractFile // by package path
	srcs      map[string][]byte
	decls     map[*types.Func]*declRef
	byName    map[string]*FuncContract // by types.Func FullName
	overlay   map[string][]byte
	litOrd    map[*ast.FuncLit]string
	closureOf map[types.Object]*Closure
}

type declRef struct {
	decl *ast.FuncDecl
	pkg  *packages.Package
}

// findContractFiles lists every verif_contracts.go under repo/src (and its package path).
func findContractFiles(repo string) (map[string]string, error) {
	out := map[string]string{}
	err := filepath.Walk(filepath.Join(repo, "src"), func(p string, info os.FileInfo, err error) error {
		if err != nil {
			return nil
		}
		if info.IsDir() && (info.Name() == "plz-out" || strings.HasPrefix(info.Name(), ".")) {
			return filepath.SkipDir
		}
		if !info.IsDir() && info.Name() == "verif_contracts.go" {
			rel, _ := filepath.Rel(repo, filepath.Dir(p))
			out[modulePath+"/"+filepath.ToSlash(rel)] = p
		}
		return nil
	})
	return out, err
}

func loadContracts(repo string) (map[string]*ContractFile, error) {
	files, err := findContractFiles(repo)
	if err != nil {
		return nil, err
	}
	out := map[string]*ContractFile{}
	for pkg, path := range files {
		cf, err := parseContractFile(path, pkg)
		if err != nil {
			return nil, err
		}
		out[pkg] = cf
	}
	return out, nil
}

func loadProgram(repo string, contracts map[string]*ContractFile, pkgPaths []string, overlay map[string][]byte) (*Program, error) {
	fset := token.NewFileSet()
	cfg := &packages.Config{
		Mode: packages.NeedName | packages.NeedFiles | packages.NeedCompiledGoFiles | packages.NeedSyntax | packages.NeedTypes |
			packages.NeedTypesInfo | packages.NeedImports | packages.NeedDeps,
		Dir:        repo,
		Fset:       fset,
		BuildFlags: []string{"-tags=verif"},
		Env: append(os.Environ(), "GOFLAGS=-mod=mod", "GOPROXY=off", "GOSUMDB=off", "GOTOOLCHAIN=local",
			"PATH=/opt/veriftools/go1.26.8/bin:"+os.Getenv("PATH")),
		Overlay:   overlay,
		ParseFile: nil,
	}
	var patterns []string
	for _, p := range pkgPaths {
		patterns = append(patterns, p)
	}
	sort.Strings(patterns)
	pkgs, err := packages.Load(cfg, patterns...)
	if err != nil {
		return nil, err
	}
	prog := &Program{repo: repo, fset: fset, pkgs: map[string]*packages.Package{}, contracts: contracts, srcs: map[string][]byte{},
		decls: map[*types.Func]*declRef{}, byName: map[string]*FuncContract{}, overlay: overlay, litOrd: map[*ast.FuncLit]string{}, closureOf: map[types.Object]*Closure{}}
	var errs []string
	packages.Visit(pkgs, nil, func(p *packages.Package) {
		if !strings.HasPrefix(p.PkgPath, modulePath) {
			return
		}
		for _, e := range p.Errors {
			errs = append(errs, e.Error())
		}
		prog.pkgs[p.PkgPath] = p
		for _, f := range p.Syntax {
			for _, d := range f.Decls {
				fd, ok := d.(*ast.FuncDecl)
				if !ok {
					continue
				}
				if obj, ok := p.TypesInfo.Defs[fd.Name].(*types.Func); ok {
					prog.decls[obj] = &declRef{fd, p}
					n := 0
					name := declKey(fd)
					ast.Inspect(fd, func(nd ast.Node) bool {
						if fl, ok := nd.(*ast.FuncLit); ok {
							n++
							prog.litOrd[fl] = fmt.Sprintf("%s.lit#%d", name, n)
						}
						return true
					})
					// local variables bound (exactly once, syntactically) to a function literal
					bound := map[types.Object][]*ast.FuncLit{}
					ast.Inspect(fd, func(nd ast.Node) bool {
						switch a := nd.(type) {
						case *ast.AssignStmt:
							if len(a.Lhs) == len(a.Rhs) {
								for i, l := range a.Lhs {
									id, ok1 := l.(*ast.Ident)
									fl, ok2 := a.Rhs[i].(*ast.FuncLit)
									if ok1 && ok2 {
										o := p.TypesInfo.Defs[id]
										if o == nil {
											o = p.TypesInfo.Uses[id]
										}
										if o != nil {
											bound[o] = append(bound[o], fl)
										}
									}
								}
							}
						case *ast.ValueSpec:
							for i, id := range a.Names {
								if i < len(a.Values) {
									if fl, ok := a.Values[i].(*ast.FuncLit); ok {
										if o := p.TypesInfo.Defs[id]; o != nil {
											bound[o] = append(bound[o], fl)
										}
									}
								}
							}
						}
						return true
					})
					for o, fls := range bound {
						if len(fls) == 1 {
							prog.closureOf[o] = &Closure{Lit: fls[0], Pkg: p, Name: prog.litOrd[fls[0]]}
						}
					}
				}
			}
		}
	})
	if len(errs) > 0 {
		return nil, fmt.Errorf("type errors in /repo: %s", strings.Join(errs, "; "))
	}
	// contracts on local function values may be keyed by variable name: "F.needToRun" is the literal bound to
	// the local variable needToRun of F; it is aliased to that literal's ordinal key ("F.lit#4").
	for pkgPath, cf := range contracts {
		if prog.pkgs[pkgPath] == nil {
			continue
		}
		for _, key := range append([]string{}, cf.Order...) {
			i := strings.LastIndex(key, ".")
			if i <= 0 || strings.Contains(key, ".lit#") || strings.HasSuffix(key[:i], ")") && !strings.Contains(key[:i], ").") {
				continue
			}
			outer, vname := key[:i], key[i+1:]
			for obj, clo := range prog.closureOf {
				if obj.Name() != vname || clo.Pkg.PkgPath != pkgPath || !strings.HasPrefix(clo.Name, outer+".lit#") {
					continue
				}
				fc := cf.Funcs[key]
				if _, exists := cf.Funcs[clo.Name]; !exists {
					fc.Key = clo.Name
					cf.Funcs[clo.Name] = fc
					delete(cf.Funcs, key)
					for k := range cf.Order {
						if cf.Order[k] == key {
							cf.Order[k] = clo.Name
						}
					}
				}
			}
		}
	}
	for pkgPath, cf := range contracts {
		p := prog.pkgs[pkgPath]
		if p == nil {
			continue
		}
		for obj := range prog.decls {
			if obj.Pkg() == nil || obj.Pkg().Path() != pkgPath {
				continue
			}
			_, key := contractKey(obj)
			if fc, ok := cf.Funcs[key]; ok {
				prog.byName[obj.FullName()] = fc
			}
		}
		// methods of interface types have no declaration with a body: register their (assumed) contracts too
		for key, fc := range cf.Funcs {
			if !strings.HasPrefix(key, "(") {
				continue
			}
			i := strings.Index(key, ").")
			if i < 0 {
				continue
			}
			tn, ok := p.Types.Scope().Lookup(key[1:i]).(*types.TypeName)
			if !ok {
				continue
			}
			iface, ok := tn.Type().Underlying().(*types.Interface)
			if !ok {
				continue
			}
			for m := 0; m < iface.NumMethods(); m++ {
				if iface.Method(m).Name() == key[i+2:] {
					prog.byName[iface.Method(m).FullName()] = fc
				}
			}
		}
	}
	return prog, nil
}

func declKey(fd *ast.FuncDecl) string {
	if fd.Recv != nil && len(fd.Recv.List) > 0 {
		t := fd.Recv.List[0].Type
		if s, ok := t.(*ast.StarExpr); ok {
			t = s.X
		}
		if ix, ok := t.(*ast.IndexExpr); ok {
			t = ix.X
		}
		if ix, ok := t.(*ast.IndexListExpr); ok {
			t = ix.X
		}
		return "(" + types.ExprString(t) + ")." + fd.Name.Name
	}
	return fd.Name.Name
}

func (p *Program) fileSrc(name string) []byte {
	if b, ok := p.srcs[name]; ok {
		return b
	}
	if b, ok := p.overlay[name]; ok {
		p.srcs[name] = b
		return b
	}
	b, err := os.ReadFile(name)
	if err != nil {
		b = nil
	}
	p.srcs[name] = b
	return b
}

func (p *Program) contractFor(pkgPath, key string) *FuncContract {
	if cf := p.contracts[pkgPath]; cf != nil {
		return cf.Funcs[key]
	}
	return nil
}

func (p *Program) contractForName(fullName string) *FuncContract { return p.byName[fullName] }

func (p *Program) specFor(pkgPath, name string) *SpecFunc {
	if cf := p.contracts[pkgPath]; cf != nil {
		if s := cf.Specs[name]; s != nil {
			return s
		}
	}
	return nil
}

func (p *Program) findDecl(fn *types.Func) (*ast.FuncDecl, *packages.Package) {
	if r, ok := p.decls[fn.Origin()]; ok {
		return r.decl, r.pkg
	}
	return nil, nil
}

// findTarget locates the function (or function literal) a contract key refers to.
func (p *Program) findTarget(pkgPath, key string) (ast.Node, *packages.Package, *ast.FuncDecl) {
	pkg := p.pkgs[pkgPath]
	if pkg == nil {
		return nil, nil, nil
	}
	base := key
	lit := ""
	if i := strings.Index(key, ".lit#"); i >= 0 {
		base, lit = key[:i], key[i+1:]
	}
	for _, f := range pkg.Syntax {
		for _, d := range f.Decls {
			fd, ok := d.(*ast.FuncDecl)
			if !ok || declKey(fd) != base {
				continue
			}
			if lit == "" {
				return fd, pkg, fd
			}
			var found ast.Node
			ast.Inspect(fd, func(nd ast.Node) bool {
				if fl, ok := nd.(*ast.FuncLit); ok && p.litOrd[fl] == key {
					found = fl
				}
				return true
			})
			if found != nil {
				return found, pkg, fd
			}
		}
	}
	return nil, pkg, nil
}
