package main

// Parsing of the //@ contract language held in verif_contracts.go files.
//
//   //@ spec under(lp string, p string) bool = lp == "" || p == lp || hasPrefix(p, lp + "/")
//   //@ func (BuildLabel).Includes
//   //@   requires nonneg: x >= 0
//   //@   ensures dots [C20 C33]: label.Name == "..." ==> result == under(label.PackageName, that.PackageName)
//   //@   invariant "range coverage" bound: 0 <= i && i <= len(coverage)
//   //@   modifies nothing
//   //@ lemma merge_comm [C27]: forall a int, b int :: max(a, b) == max(b, a)
//   //@ assume func strings.Foo ... (trusted contract; body not verified)
//
// A trailing backslash continues a clause on the next //@ line.

import (
	"fmt"
	"go/ast"
	"go/parser"
	"go/token"
	"regexp"
	"strings"
)

type Clause struct {
	Kind    string // requires ensures invariant modifies decreases panics
	Name    string
	Props   []string
	Src     string
	Expr    ast.Expr
	Line    int
	LoopKey string
	Region  string // for known findings: name of region this clause excludes
}

type FuncContract struct {
	Pkg      string
	Key      string // "(BuildLabel).Includes", "MergeCoverageLines", "FindAllBuildFiles.lit#2"
	Requires []*Clause
	Ensures  []*Clause
	Invs     []*Clause
	Sites    []*Clause // callsite assertions: LoopKey holds the callee key
	Modifies []string  // names; "nothing" => empty with ModifiesSet=true
	ModSet   bool
	Pure     bool // result is a function of the arguments (and pointees); no effects
	Assumed  bool // trusted: the body is not verified
	NoInline bool
	Aliases  map[string]string // result name -> parameter whose backing array it may share
	Props    []string
	Line     int
	Ghost    []string
	Unroll   int
	Opts     map[string]string
	tracked  []string
}

type SpecParam struct {
	Name string
	Type string
}

type SpecFunc struct {
	Name   string
	Params []SpecParam
	Ret    string
	Src    string
	Body   ast.Expr // nil => uninterpreted
	Rec    bool
	Line   int
}

type Lemma struct {
	Name  string
	Props []string
	Src   string
	Expr  ast.Expr
	Line  int
	Uses  []string // axioms (other lemma names) assumed for this lemma
}

type Axiom struct {
	Name string
	Src  string
	Expr ast.Expr
	Line int
}

type ContractFile struct {
	Pkg    string
	Path   string
	Funcs  map[string]*FuncContract
	Order  []string
	Specs  map[string]*SpecFunc
	SpecOr []string
	Lemmas []*Lemma
	Axioms []*Axiom
	Sites  []*SiteRule
}

// SiteRule is a whole-package syntactic/semantic rule (e.g. every write to a field obeys a relation).
type SiteRule struct {
	Name  string
	Props []string
	Kind  string
	Args  []string
	Line  int
}

var clauseHead = regexp.MustCompile(`^(requires|ensures|invariant|loopexit|decreases|panics_only_if|assert)\b\s*(.*)$`)
var propsRe = regexp.MustCompile(`^\[([A-Za-z0-9 ,_=]+)\]\s*`)

func parseContractFile(path, pkg string) (*ContractFile, error) {
	fset := token.NewFileSet()
	f, err := parser.ParseFile(fset, path, nil, parser.ParseComments)
	if err != nil {
		return nil, err
	}
	cf := &ContractFile{Pkg: pkg, Path: path, Funcs: map[string]*FuncContract{}, Specs: map[string]*SpecFunc{}}
	type line struct {
		text string
		no   int
	}
	var lines []line
	for _, cg := range f.Comments {
		for _, c := range cg.List {
			if strings.HasPrefix(c.Text, "//@") {
				t := strings.TrimPrefix(c.Text, "//@")
				lines = append(lines, line{t, fset.Position(c.Pos()).Line})
			}
		}
	}
	// join continuations
	var joined []line
	for i := 0; i < len(lines); i++ {
		t := lines[i].text
		no := lines[i].no
		for strings.HasSuffix(strings.TrimRight(t, " "), "\\") && i+1 < len(lines) {
			t = strings.TrimSuffix(strings.TrimRight(t, " "), "\\") + " " + strings.TrimSpace(lines[i+1].text)
			i++
		}
		joined = append(joined, line{t, no})
	}
	var cur *FuncContract
	for _, l := range joined {
		t := strings.TrimSpace(l.text)
		if t == "" || strings.HasPrefix(t, "#") {
			continue
		}
		fail := func(msg string) error {
			return fmt.Errorf("%s:%d: %s: %q", path, l.no, msg, t)
		}
		switch {
		case strings.HasPrefix(t, "spec "):
			sp, err := parseSpec(strings.TrimPrefix(t, "spec "), l.no)
			if err != nil {
				return nil, fail(err.Error())
			}
			cf.Specs[sp.Name] = sp
			cf.SpecOr = append(cf.SpecOr, sp.Name)
			cur = nil
		case strings.HasPrefix(t, "func ") || strings.HasPrefix(t, "assume func "):
			assumed := strings.HasPrefix(t, "assume ")
			key := strings.TrimSpace(strings.TrimPrefix(strings.TrimPrefix(t, "assume "), "func "))
			cur = &FuncContract{Pkg: pkg, Key: key, Assumed: assumed, Line: l.no, Opts: map[string]string{}}
			if _, dup := cf.Funcs[key]; dup {
				return nil, fail("duplicate contract")
			}
			cf.Funcs[key] = cur
			cf.Order = append(cf.Order, key)
		case strings.HasPrefix(t, "lemma ") || strings.HasPrefix(t, "axiom "):
			isAx := strings.HasPrefix(t, "axiom ")
			rest := strings.TrimSpace(t[6:])
			name, props, body, err := splitClauseHead(rest)
			if err != nil {
				return nil, fail(err.Error())
			}
			var uses []string
			if i := strings.Index(body, " using "); i >= 0 && !isAx {
				uses = strings.Fields(strings.ReplaceAll(body[i+7:], ",", " "))
				body = body[:i]
			}
			e, err := parseContractExpr(body)
			if err != nil {
				return nil, fail(err.Error())
			}
			if isAx {
				cf.Axioms = append(cf.Axioms, &Axiom{Name: name, Src: body, Expr: e, Line: l.no})
			} else {
				cf.Lemmas = append(cf.Lemmas, &Lemma{Name: name, Props: props, Src: body, Expr: e, Line: l.no, Uses: uses})
			}
			cur = nil
		case strings.HasPrefix(t, "site "):
			rest := strings.TrimSpace(t[5:])
			name, props, body, err := splitClauseHead(rest)
			if err != nil {
				return nil, fail(err.Error())
			}
			fs := strings.Fields(body)
			if len(fs) == 0 {
				return nil, fail("empty site rule")
			}
			cf.Sites = append(cf.Sites, &SiteRule{Name: name, Props: props, Kind: fs[0], Args: fs[1:], Line: l.no})
			cur = nil
		default:
			if cur == nil {
				return nil, fail("clause outside a func block")
			}
			switch {
			case t == "pure":
				cur.Pure = true
				continue
			case t == "noinline":
				cur.NoInline = true
				continue
			case strings.HasPrefix(t, "aliases "):
				// aliases <result> <param>: the slice returned shares its backing array with that argument
				fs := strings.Fields(t[8:])
				if len(fs) != 2 {
					return nil, fail("aliases needs: <result> <param>")
				}
				if cur.Aliases == nil {
					cur.Aliases = map[string]string{}
				}
				cur.Aliases[fs[0]] = fs[1]
				continue
			case strings.HasPrefix(t, "property "):
				cur.Props = append(cur.Props, strings.Fields(strings.ReplaceAll(t[9:], ",", " "))...)
				continue
			case strings.HasPrefix(t, "modifies "):
				cur.ModSet = true
				for _, m := range strings.Fields(strings.ReplaceAll(t[9:], ",", " ")) {
					if m != "nothing" {
						cur.Modifies = append(cur.Modifies, m)
					}
				}
				continue
			case strings.HasPrefix(t, "opt "):
				kv := strings.SplitN(strings.TrimSpace(t[4:]), "=", 2)
				if len(kv) == 2 {
					cur.Opts[strings.TrimSpace(kv[0])] = strings.TrimSpace(kv[1])
				} else {
					cur.Opts[strings.TrimSpace(kv[0])] = "true"
				}
				continue
			}
			if strings.HasPrefix(t, "returnsite ") {
				// an assertion checked at every return statement of the function, in that statement's scope
				t = "callsite return " + strings.TrimSpace(t[11:])
			}
			if strings.HasPrefix(t, "callsite ") {
				rest := strings.TrimSpace(t[9:])
				sp := strings.IndexByte(rest, ' ')
				if sp < 0 {
					return nil, fail("callsite needs a callee and an expression")
				}
				callee := rest[:sp]
				if tr := strings.TrimSpace(rest[sp+1:]); strings.HasPrefix(tr, "track ") || strings.HasPrefix(tr, "trackresult ") {
					// callsite <callee> track <ghost> <type>: <expr>  — a ghost variable assigned at every call
					// (trackresult: assigned after the call, with `result` bound)
					kind := "track"
					if strings.HasPrefix(tr, "trackresult ") {
						kind = "trackresult"
						tr = "track " + strings.TrimSpace(tr[12:])
					}
					fs := strings.SplitN(strings.TrimSpace(tr[6:]), ":", 2)
					hd := strings.Fields(fs[0])
					if len(fs) != 2 || len(hd) != 2 {
						return nil, fail("track needs: <ghost> <type>: <expr>")
					}
					ex, err := parseContractExpr(strings.TrimSpace(fs[1]))
					if err != nil {
						return nil, fail(err.Error())
					}
					cur.Sites = append(cur.Sites, &Clause{Kind: kind, Name: hd[0], Region: hd[1], Src: strings.TrimSpace(fs[1]), Expr: ex, Line: l.no, LoopKey: callee})
					continue
				}
				if tr := strings.TrimSpace(rest[sp+1:]); strings.HasPrefix(tr, "collect ") {
					// callsite <callee> collect <set> <elemtype>: <expr>  — a monotone ghost SET: at every call of the
					// callee the value of <expr> is added; read with collected(<set>, x)
					fs := strings.SplitN(strings.TrimSpace(tr[8:]), ":", 2)
					hd := strings.Fields(fs[0])
					if len(fs) != 2 || len(hd) != 2 {
						return nil, fail("collect needs: <set> <elemtype>: <expr>")
					}
					ex, err := parseContractExpr(strings.TrimSpace(fs[1]))
					if err != nil {
						return nil, fail(err.Error())
					}
					cur.Sites = append(cur.Sites, &Clause{Kind: "collect", Name: hd[0], Region: hd[1], Src: strings.TrimSpace(fs[1]), Expr: ex, Line: l.no, LoopKey: callee})
					continue
				}
				name, props, body, err := splitClauseHead(rest[sp+1:])
				if err != nil {
					return nil, fail(err.Error())
				}
				ex, err := parseContractExpr(body)
				if err != nil {
					return nil, fail(err.Error())
				}
				if name == "" {
					name = fmt.Sprintf("s%d", len(cur.Sites)+1)
				}
				cur.Sites = append(cur.Sites, &Clause{Kind: "callsite", Name: name, Props: props, Src: body, Expr: ex, Line: l.no, LoopKey: callee})
				continue
			}
			m := clauseHead.FindStringSubmatch(t)
			if m == nil {
				return nil, fail("unknown clause")
			}
			kind, rest := m[1], m[2]
			cl := &Clause{Kind: kind, Line: l.no}
			if kind == "invariant" || kind == "loopexit" {
				// invariant "loop key" name: expr   /   loopexit "loop key" name: expr
				rest = strings.TrimSpace(rest)
				if !strings.HasPrefix(rest, "\"") {
					return nil, fail("invariant needs a quoted loop key")
				}
				end := strings.Index(rest[1:], "\"")
				if end < 0 {
					return nil, fail("unterminated loop key")
				}
				cl.LoopKey = rest[1 : 1+end]
				rest = strings.TrimSpace(rest[end+2:])
			}
			name, props, body, err := splitClauseHead(rest)
			if err != nil {
				return nil, fail(err.Error())
			}
			cl.Name, cl.Props, cl.Src = name, props, body
			for i, p := range cl.Props {
				if strings.HasPrefix(p, "except=") {
					cl.Region = strings.TrimPrefix(p, "except=")
					cl.Props = append(cl.Props[:i:i], cl.Props[i+1:]...)
					break
				}
			}
			e, err := parseContractExpr(body)
			if err != nil {
				return nil, fail(err.Error())
			}
			cl.Expr = e
			switch kind {
			case "requires":
				if cl.Name == "" {
					cl.Name = fmt.Sprintf("r%d", len(cur.Requires)+1)
				}
				cur.Requires = append(cur.Requires, cl)
			case "ensures":
				if cl.Name == "" {
					cl.Name = fmt.Sprintf("e%d", len(cur.Ensures)+1)
				}
				cur.Ensures = append(cur.Ensures, cl)
			case "invariant", "loopexit":
				if cl.Name == "" {
					cl.Name = fmt.Sprintf("i%d", len(cur.Invs)+1)
				}
				cur.Invs = append(cur.Invs, cl)
			default:
				return nil, fail("clause kind not supported yet")
			}
		}
	}
	return cf, nil
}

// splitClauseHead parses "name [P1 P2]: expr" (name and props optional).
func splitClauseHead(rest string) (name string, props []string, body string, err error) {
	rest = strings.TrimSpace(rest)
	// find the first top-level ':' that is followed by a space, before which only identifier/[..] text occurs
	idx := -1
	depth := 0
	for i := 0; i < len(rest); i++ {
		c := rest[i]
		if c == '[' {
			depth++
		} else if c == ']' {
			depth--
		} else if c == ':' && depth == 0 {
			if i+1 < len(rest) && rest[i+1] == ':' { // "::" of a quantifier
				break
			}
			idx = i
			break
		} else if !(c == '_' || c == ' ' || c == ',' || c == '=' || (c >= '0' && c <= '9') || (c >= 'a' && c <= 'z') || (c >= 'A' && c <= 'Z')) {
			break
		}
	}
	if idx < 0 {
		return "", nil, rest, nil
	}
	head := strings.TrimSpace(rest[:idx])
	body = strings.TrimSpace(rest[idx+1:])
	if i := strings.Index(head, "["); i >= 0 {
		j := strings.Index(head, "]")
		if j < i {
			return "", nil, "", fmt.Errorf("bad property list")
		}
		props = strings.Fields(strings.ReplaceAll(head[i+1:j], ",", " "))
		head = strings.TrimSpace(head[:i])
	}
	if strings.Contains(head, " ") {
		// not a head after all
		return "", nil, rest, nil
	}
	return head, props, body, nil
}

func parseSpec(s string, line int) (*SpecFunc, error) {
	// name(a T, b T) R = body      |   name(a T) R     (uninterpreted)
	open := strings.Index(s, "(")
	if open < 0 {
		return nil, fmt.Errorf("spec: missing (")
	}
	name := strings.TrimSpace(s[:open])
	rec := false
	if strings.HasPrefix(name, "rec ") {
		rec = true
		name = strings.TrimSpace(name[4:])
	}
	depth := 0
	close := -1
	for i := open; i < len(s); i++ {
		if s[i] == '(' {
			depth++
		} else if s[i] == ')' {
			depth--
			if depth == 0 {
				close = i
				break
			}
		}
	}
	if close < 0 {
		return nil, fmt.Errorf("spec: missing )")
	}
	sp := &SpecFunc{Name: name, Line: line, Rec: rec}
	ps := strings.TrimSpace(s[open+1 : close])
	if ps != "" {
		for _, p := range splitTop(ps, ',') {
			p = strings.TrimSpace(p)
			i := strings.Index(p, " ")
			if i < 0 {
				return nil, fmt.Errorf("spec: parameter needs a type: %q", p)
			}
			sp.Params = append(sp.Params, SpecParam{Name: p[:i], Type: strings.TrimSpace(p[i+1:])})
		}
	}
	rest := strings.TrimSpace(s[close+1:])
	// the "=" separating signature and body: first top-level " = "
	if i := strings.Index(rest, " = "); i >= 0 {
		sp.Ret = strings.TrimSpace(rest[:i])
		sp.Src = strings.TrimSpace(rest[i+3:])
		e, err := parseContractExpr(sp.Src)
		if err != nil {
			return nil, err
		}
		sp.Body = e
	} else {
		sp.Ret = rest
	}
	if sp.Ret == "" {
		return nil, fmt.Errorf("spec: missing result type")
	}
	return sp, nil
}

// splitTop splits s at top-level occurrences of sep (outside (), [], {}, and strings).
func splitTop(s string, sep byte) []string {
	var out []string
	depth := 0
	start := 0
	inStr := byte(0)
	for i := 0; i < len(s); i++ {
		c := s[i]
		if inStr != 0 {
			if c == '\\' {
				i++
			} else if c == inStr {
				inStr = 0
			}
			continue
		}
		switch c {
		case '"', '\'', '`':
			inStr = c
		case '(', '[', '{':
			depth++
		case ')', ']', '}':
			depth--
		default:
			if c == sep && depth == 0 {
				out = append(out, s[start:i])
				start = i + 1
			}
		}
	}
	out = append(out, s[start:])
	return out
}

// findTop finds the first top-level occurrence of op in s (outside brackets/strings), or -1.
func findTop(s, op string) int {
	depth := 0
	inStr := byte(0)
	for i := 0; i < len(s); i++ {
		c := s[i]
		if inStr != 0 {
			if c == '\\' {
				i++
			} else if c == inStr {
				inStr = 0
			}
			continue
		}
		switch c {
		case '"', '\'', '`':
			inStr = c
		case '(', '[', '{':
			depth++
		case ')', ']', '}':
			depth--
		default:
			if depth == 0 && strings.HasPrefix(s[i:], op) {
				// make sure "==>" is not matched inside "<==>"
				if op == "==>" && i > 0 && s[i-1] == '<' {
					continue
				}
				return i
			}
		}
	}
	return -1
}

// rewriteContract turns the contract surface syntax into plain Go expression syntax:
//
//	a ==> b            ->  implies__(a, b)
//	a <==> b           ->  iff__(a, b)
//	forall x T :: P    ->  forall__(func(x T) bool { return P })
//	exists x T :: P    ->  exists__(func(x T) bool { return P })
func rewriteContract(s string) string {
	s = strings.TrimSpace(s)
	if s == "" {
		return s
	}
	// a quantifier extends as far to the right as possible
	qi := findQuant(s)
	i1, i2 := findTop(s, "<==>"), findTop(s, "==>")
	firstImp := i1
	if firstImp < 0 || (i2 >= 0 && i2 < firstImp) {
		firstImp = i2
	}
	if qi >= 0 && (firstImp < 0 || qi < firstImp) {
		if qi == 0 {
			if i := findTop(s, "::"); i >= 0 {
				q := s[:6]
				vars := strings.TrimSpace(s[7:i])
				body := rewriteContract(s[i+2:])
				return fmt.Sprintf("%s__(func(%s) bool { return %s })", q, vars, body)
			}
		} else {
			return rewriteGroups(s[:qi]) + rewriteContract(s[qi:])
		}
	}
	if i1 >= 0 {
		return fmt.Sprintf("iff__(%s, %s)", rewriteContract(s[:i1]), rewriteContract(s[i1+4:]))
	}
	if i2 >= 0 {
		return fmt.Sprintf("implies__(%s, %s)", rewriteContract(s[:i2]), rewriteContract(s[i2+3:]))
	}
	return rewriteGroups(s)
}

// findQuant finds the first top-level "forall " / "exists " keyword at a word boundary.
func findQuant(s string) int {
	best := -1
	for _, kw := range []string{"forall ", "exists "} {
		from := 0
		for {
			i := findTop(s[from:], kw)
			if i < 0 {
				break
			}
			i += from
			if i == 0 || !(isIdentChar(s[i-1])) {
				if best < 0 || i < best {
					best = i
				}
				break
			}
			from = i + 1
		}
	}
	return best
}

func isIdentChar(c byte) bool {
	return c == '_' || (c >= '0' && c <= '9') || (c >= 'a' && c <= 'z') || (c >= 'A' && c <= 'Z')
}

// rewriteGroups descends into bracketed groups of s, rewriting their contents.
func rewriteGroups(s string) string {
	var b strings.Builder
	inStr := byte(0)
	for i := 0; i < len(s); i++ {
		c := s[i]
		if inStr != 0 {
			b.WriteByte(c)
			if c == '\\' && i+1 < len(s) {
				i++
				b.WriteByte(s[i])
			} else if c == inStr {
				inStr = 0
			}
			continue
		}
		switch c {
		case '"', '\'', '`':
			inStr = c
			b.WriteByte(c)
		case '(', '[':
			closeC := byte(')')
			if c == '[' {
				closeC = ']'
			}
			// find matching close
			depth := 0
			j := i
			in2 := byte(0)
			for ; j < len(s); j++ {
				d := s[j]
				if in2 != 0 {
					if d == '\\' {
						j++
					} else if d == in2 {
						in2 = 0
					}
					continue
				}
				if d == '"' || d == '\'' || d == '`' {
					in2 = d
				} else if d == '(' || d == '[' || d == '{' {
					depth++
				} else if d == ')' || d == ']' || d == '}' {
					depth--
					if depth == 0 {
						break
					}
				}
			}
			if j >= len(s) {
				b.WriteString(s[i:])
				return b.String()
			}
			inner := s[i+1 : j]
			b.WriteByte(c)
			if c == '(' {
				raw := splitTop(inner, ',')
				// binder lists of quantifiers contain commas: "exists i int, j int :: P"
				var parts []string
				for k := 0; k < len(raw); k++ {
					p := raw[k]
					t := strings.TrimSpace(p)
					if (strings.HasPrefix(t, "forall ") || strings.HasPrefix(t, "exists ")) && findTop(p, "::") < 0 {
						for k+1 < len(raw) && findTop(p, "::") < 0 {
							k++
							p += "," + raw[k]
						}
						// everything after the "::" belongs to the quantifier too
						for k+1 < len(raw) {
							k++
							p += "," + raw[k]
						}
					}
					parts = append(parts, p)
				}
				for k, p := range parts {
					if k > 0 {
						b.WriteString(",")
					}
					b.WriteString(rewriteContract(p))
				}
			} else {
				parts := splitTop(inner, ':')
				for k, p := range parts {
					if k > 0 {
						b.WriteString(":")
					}
					b.WriteString(rewriteContract(p))
				}
			}
			b.WriteByte(closeC)
			i = j
		default:
			b.WriteByte(c)
		}
	}
	return b.String()
}

func parseContractExpr(src string) (ast.Expr, error) {
	rw := rewriteContract(src)
	e, err := parser.ParseExpr(rw)
	if err != nil {
		return nil, fmt.Errorf("contract expression %q (rewritten %q): %v", src, rw, err)
	}
	return e, nil
}
