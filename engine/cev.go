package main

// Evaluation of contract expressions (untyped go/ast produced by parseContractExpr).

import (
	"fmt"
	"go/ast"
	"go/parser"
	"go/token"
	"go/types"
	"strconv"
	"strings"
)

type cenv struct {
	vals    map[string]Val
	resolve func(name string, st *State) (Val, bool)
	old     *State
	loopOld *State // the state on entry to the innermost enclosing range loop (atloop(e))
	pkgPath string
	visited func(k Term) Term // inside a loop over a map: has key k been iterated over already?
}

func (fc *FuncContract) PkgPath() string { return fc.Pkg }

func (c *cenv) with(name string, v Val) *cenv {
	n := &cenv{vals: map[string]Val{}, resolve: c.resolve, old: c.old, loopOld: c.loopOld, pkgPath: c.pkgPath, visited: c.visited}
	for k, x := range c.vals {
		n.vals[k] = x
	}
	n.vals[name] = v
	return n
}

func (e *Exec) evContract(st *State, x ast.Expr, env *cenv) Term {
	e.inContract++
	defer func() { e.inContract-- }()
	v := e.cev(st, x, env)
	if v.T.Sort != SBool {
		e.fail(x.Pos(), "contract expression is not boolean: %s", v.T.Sort)
	}
	return v.T
}

// loopEnv resolves names as seen at a source position inside the current function.
func (e *Exec) loopEnv(st *State, pos token.Pos, extra map[string]Val) *cenv {
	f := e.top()
	pkg := f.pkg
	env := &cenv{vals: map[string]Val{}, pkgPath: pkg.PkgPath}
	for k, v := range extra {
		env.vals[k] = v
	}
	env.old = e.frames[0].oldState()
	if st.anchor != nil {
		env.old = st.anchor
	}
	if n := len(e.visitedStack); n > 0 {
		fn := e.visitedStack[n-1]
		env.visited = func(k Term) Term { return fn(st, k) }
	}
	env.resolve = func(name string, s *State) (Val, bool) {
		sc := pkg.Types.Scope().Innermost(pos)
		for sc != nil {
			// declarations later in the same block (which may shadow a parameter) are not visible at pos
			obj := sc.Lookup(name)
			if obj != nil && obj.Pos().IsValid() && pos.IsValid() && obj.Pos() > pos && sc != pkg.Types.Scope() {
				if _, isVar := obj.(*types.Var); isVar {
					obj = nil
				}
			}
			if obj != nil {
				if v, ok := s.vars[obj]; ok {
					return v, true
				}
				if _, isVar := obj.(*types.Var); isVar && obj.Parent() == pkg.Types.Scope() {
					return e.objVal(s, obj, pos), true
				}
				if v, isVar := obj.(*types.Var); isVar {
					if cv, ok := e.capturedVal(v); ok {
						return cv, true
					}
				}
			}
			sc = sc.Parent()
		}
		// parameters of the enclosing functions (named results etc.)
		for k, v := range s.vars {
			if k.Name() == name {
				return v, true
			}
		}
		return Val{}, false
	}
	return env
}

var oldStates = map[*callFrame]*State{}

func (f *callFrame) oldState() *State { return oldStates[f] }

func (e *Exec) pkgTypes(env *cenv) *types.Package {
	if env != nil && env.pkgPath != "" {
		if p := e.prog.pkgs[env.pkgPath]; p != nil {
			return p.Types
		}
	}
	return e.top().pkg.Types
}

func (e *Exec) resolveType(env *cenv, x ast.Expr) types.Type {
	pkg := e.pkgTypes(env)
	t := e.typeFromExpr(pkg, x)
	if t == nil {
		e.fail(x.Pos(), "cannot resolve type %q in package %s", types.ExprString(x), pkg.Path())
	}
	return t
}

func (e *Exec) resolveTypeStr(env *cenv, s string) types.Type {
	x, err := parser.ParseExpr(s)
	if err != nil {
		e.fail(token.NoPos, "cannot parse type %q: %v", s, err)
	}
	return e.resolveType(env, x)
}

// typeFromExpr resolves a type expression as seen from a package (imports are found by package name).
func (e *Exec) typeFromExpr(pkg *types.Package, x ast.Expr) types.Type {
	switch x := x.(type) {
	case *ast.Ident:
		// type parameters of the function (or receiver type) under verification
		if len(e.frames) > 0 && e.frames[0].sig != nil {
			sig := e.frames[0].sig
			for _, tps := range []*types.TypeParamList{sig.RecvTypeParams(), sig.TypeParams()} {
				for i := 0; tps != nil && i < tps.Len(); i++ {
					if tps.At(i).Obj().Name() == x.Name {
						return tps.At(i)
					}
				}
			}
		}
		if obj := pkg.Scope().Lookup(x.Name); obj != nil {
			if tn, ok := obj.(*types.TypeName); ok {
				return tn.Type()
			}
		}
		if obj := types.Universe.Lookup(x.Name); obj != nil {
			if tn, ok := obj.(*types.TypeName); ok {
				return tn.Type()
			}
		}
	case *ast.SelectorExpr:
		if id, ok := x.X.(*ast.Ident); ok {
			for _, imp := range pkg.Imports() {
				if imp.Name() == id.Name {
					if tn, ok := imp.Scope().Lookup(x.Sel.Name).(*types.TypeName); ok {
						return tn.Type()
					}
				}
			}
			// packages of the repository that are loaded but not imported by this one
			for path, p := range e.prog.pkgs {
				if shortName(path) == id.Name && p.Types != nil {
					if tn, ok := p.Types.Scope().Lookup(x.Sel.Name).(*types.TypeName); ok {
						return tn.Type()
					}
				}
			}
		}
	case *ast.StarExpr:
		if t := e.typeFromExpr(pkg, x.X); t != nil {
			return types.NewPointer(t)
		}
	case *ast.ArrayType:
		if t := e.typeFromExpr(pkg, x.Elt); t != nil {
			if x.Len == nil {
				return types.NewSlice(t)
			}
			if bl, ok := x.Len.(*ast.BasicLit); ok {
				n, _ := strconv.Atoi(bl.Value)
				return types.NewArray(t, int64(n))
			}
		}
	case *ast.MapType:
		k, v := e.typeFromExpr(pkg, x.Key), e.typeFromExpr(pkg, x.Value)
		if k != nil && v != nil {
			return types.NewMap(k, v)
		}
	case *ast.ParenExpr:
		return e.typeFromExpr(pkg, x.X)
	case *ast.InterfaceType:
		return types.NewInterfaceType(nil, nil)
	case *ast.ChanType:
		if t := e.typeFromExpr(pkg, x.Value); t != nil {
			return types.NewChan(types.SendRecv, t)
		}
	case *ast.StructType:
		if x.Fields == nil || len(x.Fields.List) == 0 {
			return types.NewStruct(nil, nil)
		}
	}
	return nil
}

func (e *Exec) cev(st *State, x ast.Expr, env *cenv) Val {
	boolT := types.Typ[types.Bool]
	switch x := x.(type) {
	case *ast.ParenExpr:
		return e.cev(st, x.X, env)
	case *ast.BasicLit:
		switch x.Kind {
		case token.INT:
			return Val{T: IntLitS(x.Value)}
		case token.STRING:
			s, err := strconv.Unquote(x.Value)
			if err != nil {
				e.fail(x.Pos(), "bad string literal %s", x.Value)
			}
			return Val{T: StrLit(s), GT: types.Typ[types.String]}
		case token.CHAR:
			r, _, _, err := strconv.UnquoteChar(x.Value[1:len(x.Value)-1], '\'')
			if err != nil {
				e.fail(x.Pos(), "bad char literal %s", x.Value)
			}
			return Val{T: IntLit(int64(r))}
		}
		e.fail(x.Pos(), "unsupported literal %s", x.Value)
	case *ast.Ident:
		switch x.Name {
		case "true":
			return Val{T: True, GT: boolT}
		case "false":
			return Val{T: False, GT: boolT}
		case "nil":
			return Val{T: nilTerm, GT: types.Typ[types.UntypedNil]}
		}
		if v, ok := env.vals[x.Name]; ok {
			return v
		}
		if env.resolve != nil {
			if v, ok := env.resolve(x.Name, st); ok {
				return v
			}
		}
		// package-level constant or variable
		pkg := e.pkgTypes(env)
		if obj := pkg.Scope().Lookup(x.Name); obj != nil {
			switch obj.(type) {
			case *types.Const, *types.Var:
				return e.objVal(st, obj, x.Pos())
			}
		}
		if g, ok := st.ghosts[x.Name]; ok {
			return g
		}
		if g, ok := e.trackedGhost(st, x.Name); ok {
			return g
		}
		e.fail(x.Pos(), "contract: unknown name %q", x.Name)
	case *ast.UnaryExpr:
		v := e.cev(st, x.X, env)
		switch x.Op {
		case token.NOT:
			return Val{T: Not(v.T), GT: boolT}
		case token.SUB:
			return Val{T: App(v.T.Sort, "-", v.T), GT: v.GT}
		}
		e.fail(x.Pos(), "contract: unsupported unary %s", x.Op)
	case *ast.BinaryExpr:
		a := e.cev(st, x.X, env)
		b := e.cev(st, x.Y, env)
		return e.binop(st, x.Op, a, b, x.Pos())
	case *ast.SelectorExpr:
		// pkg.Name ?
		if id, ok := x.X.(*ast.Ident); ok {
			if _, bound := env.vals[id.Name]; !bound {
				pkg := e.pkgTypes(env)
				for _, imp := range pkg.Imports() {
					if imp.Name() == id.Name {
						if _, isLocal := e.tryResolve(st, env, id.Name); !isLocal {
							obj := imp.Scope().Lookup(x.Sel.Name)
							if obj != nil {
								return e.objVal(st, obj, x.Pos())
							}
						}
					}
				}
			}
		}
		base := e.cev(st, x.X, env)
		if v, ok := e.fieldByName(st, base, x.Sel.Name, x.Pos()); ok {
			return v
		}
		e.fail(x.Pos(), "contract: no field %s on %v", x.Sel.Name, base.GT)
	case *ast.IndexExpr:
		base := e.cev(st, x.X, env)
		idx := e.cev(st, x.Index, env)
		if base.GT == nil {
			e.fail(x.Pos(), "contract: index on untyped value")
		}
		return e.indexVal(st, base, idx, x.Pos(), false)
	case *ast.SliceExpr:
		base := e.cev(st, x.X, env)
		var lo, hi *Val
		if x.Low != nil {
			v := e.cev(st, x.Low, env)
			lo = &v
		}
		if x.High != nil {
			v := e.cev(st, x.High, env)
			hi = &v
		}
		if e.sc.binders > 0 && lo != nil && lo.T.S != "0" && isSlcSort(base.T.Sort) {
			e.fail(x.Pos(), "contract: slice with non-zero low bound under a binder")
		}
		return e.sliceVal(st, base, lo, hi, x.Pos(), false)
	case *ast.CallExpr:
		return e.ccall(st, x, env)
	case *ast.CompositeLit:
		t := e.resolveType(env, x.Type)
		stt, ok := t.Underlying().(*types.Struct)
		if !ok {
			e.fail(x.Pos(), "contract: only struct literals are supported")
		}
		s := e.sr.sortOf(t)
		si := e.sr.structInfoOf(s)
		args := make([]Term, len(si.Fields))
		for i, f := range si.Fields {
			args[i] = e.zeroOfSort(f.Sort, f.GT)
		}
		_ = stt
		for _, el := range x.Elts {
			kv, ok := el.(*ast.KeyValueExpr)
			if !ok {
				e.fail(x.Pos(), "contract: struct literal needs field names")
			}
			idx, f := si.field(kv.Key.(*ast.Ident).Name)
			if idx < 0 {
				e.fail(x.Pos(), "contract: unknown field")
			}
			v := e.convertTo(st, e.cev(st, kv.Value, env), f.GT)
			args[idx] = v.T
		}
		return Val{T: si.mk(args), GT: t}
	}
	e.fail(x.Pos(), "contract: unsupported expression %T", x)
	return Val{}
}

func (e *Exec) tryResolve(st *State, env *cenv, name string) (Val, bool) {
	if v, ok := env.vals[name]; ok {
		return v, true
	}
	if env.resolve != nil {
		return env.resolve(name, st)
	}
	return Val{}, false
}

func (e *Exec) ccall(st *State, x *ast.CallExpr, env *cenv) Val {
	boolT := types.Typ[types.Bool]
	intT := types.Typ[types.Int]
	strT := types.Typ[types.String]
	arg := func(i int) Val { return e.cev(st, x.Args[i], env) }
	if id, ok := x.Fun.(*ast.Ident); ok {
		switch id.Name {
		case "implies__":
			return Val{T: Implies(arg(0).T, arg(1).T), GT: boolT}
		case "iff__":
			return Val{T: Eq(arg(0).T, arg(1).T), GT: boolT}
		case "forall__", "exists__":
			return e.quant(st, id.Name == "forall__", x.Args[0].(*ast.FuncLit), env)
		case "old":
			if env.old == nil {
				e.fail(x.Pos(), "contract: old() not available here")
			}
			return e.cev(env.old, x.Args[0], env)
		case "atloop":
			// the value of an expression on entry to the loop the invariant belongs to
			if env.loopOld == nil {
				e.fail(x.Pos(), "contract: atloop() is only available in the invariant of a range loop")
			}
			return e.cev(env.loopOld, x.Args[0], env)
		case "len":
			return e.lenOf(st, arg(0), x.Pos())
		case "hasPrefix":
			return Val{T: App(SBool, "str.prefixof", arg(1).T, arg(0).T), GT: boolT}
		case "hasSuffix":
			return Val{T: App(SBool, "str.suffixof", arg(1).T, arg(0).T), GT: boolT}
		case "contains":
			return Val{T: App(SBool, "str.contains", arg(0).T, arg(1).T), GT: boolT}
		case "indexOf":
			return Val{T: App(SInt, "str.indexof", arg(0).T, arg(1).T, IntLit(0)), GT: intT}
		case "substr":
			a, lo, hi := arg(0), arg(1), arg(2)
			return Val{T: App(SString, "str.substr", a.T, lo.T, Sub(hi.T, lo.T)), GT: strT}
		case "replaceAll":
			return Val{T: App(SString, "str.replace_all", arg(0).T, arg(1).T, arg(2).T), GT: strT}
		case "char":
			return Val{T: App(SString, "str.from_code", arg(0).T), GT: strT}
		case "ite":
			c, a, b := arg(0), arg(1), arg(2)
			gt := a.GT
			if gt == nil {
				gt = b.GT
			}
			return Val{T: Ite(c.T, a.T, b.T), GT: gt}
		case "max", "min":
			a, b := arg(0), arg(1)
			gt := a.GT
			if gt == nil {
				gt = b.GT
			}
			if id.Name == "max" {
				return Val{T: Ite(Ge(a.T, b.T), a.T, b.T), GT: gt}
			}
			return Val{T: Ite(Le(a.T, b.T), a.T, b.T), GT: gt}
		case "in":
			// in(k, m): key membership in a Go map
			k, m := arg(0), arg(1)
			mt, ok := m.GT.Underlying().(*types.Map)
			if !ok {
				e.fail(x.Pos(), "contract: in() needs a map")
			}
			return Val{T: Select(MapDom(e.mapValue(st, m, mt)), e.convertTo(st, k, mt.Key()).T), GT: boolT}
		case "isnil":
			return e.binop(st, token.EQL, arg(0), Val{T: nilTerm}, x.Pos())
		case "isclosed":
			// isclosed(ch): the channel has been closed (ghost set maintained by close())
			ch := arg(0)
			cl, ok := st.ghosts["closed"]
			if !ok {
				cl = Val{T: e.closed0()}
			}
			return Val{T: Select(cl.T, ch.T), GT: boolT}
		case "deferred":
			// deferred(): the number of defer statements the function under contract has executed so far on this
			// path (so "a recovery handler is already installed here" can be stated at a call site)
			return Val{T: IntLit(int64(len(e.frames[0].defers))), GT: intT}
		case "received":
			// received(ch): this path has completed a receive on ch (so a send on ch or close(ch) happened before)
			ch := arg(0)
			rc, ok := st.ghosts["received"]
			if !ok {
				rc = Val{T: e.received0()}
			}
			return Val{T: Select(rc.T, ch.T), GT: boolT}
		case "first", "second":
			// components of a multi-value call result
			v := arg(0)
			i := map[string]int{"first": 0, "second": 1}[id.Name]
			if len(v.Tuple) <= i {
				e.fail(x.Pos(), "contract: %s() needs a multi-value call", id.Name)
			}
			return v.Tuple[i]
		case "visited":
			if env.visited == nil {
				e.fail(x.Pos(), "contract: visited() is only available in invariants of loops over maps")
			}
			return Val{T: env.visited(arg(0).T), GT: boolT}
		case "allocated":
			// allocated(r): the reference r exists already (it is below the allocation counter), so anything
			// allocated later is different from it
			r := arg(0)
			cnt, ok := st.ghosts["alloc"]
			if !ok {
				cnt = Val{T: e.sc.Const("alloc0", SInt)}
			}
			return Val{T: And(Ge(r.T, IntLit(0)), Lt(r.T, cnt.T)), GT: boolT}
		case "called":
			// called("callee"): the named callee has been called on this path (ghost flag)
			lit, ok := x.Args[0].(*ast.BasicLit)
			if !ok {
				e.fail(x.Pos(), "contract: called() needs a string literal")
			}
			name, _ := strconv.Unquote(lit.Value)
			if g, ok := st.ghosts["called:"+name]; ok {
				return Val{T: g.T, GT: boolT}
			}
			return Val{T: False, GT: boolT}
		case "written":
			// written(param): the backing array of slice parameter param was written in place
			name := x.Args[0].(*ast.Ident).Name
			if g, ok := st.ghosts["written:"+name]; ok {
				return Val{T: g.T, GT: boolT}
			}
			return Val{T: False, GT: boolT}
		case "deref":
			p := arg(0)
			pt, ok := p.GT.Underlying().(*types.Pointer)
			if !ok {
				e.fail(x.Pos(), "contract: deref of non-pointer")
			}
			return e.deref(st, p, pt, x.Pos())
		case "fresh":
			// fresh(x): the (slice or boxed slice) value x shares no backing array with a parameter or a heap field,
			// as far as the origin tracking can tell (a static over-approximation of aliasing: false means "may alias")
			v := arg(0)
			if len(v.Orig) == 0 {
				return Val{T: True, GT: boolT}
			}
			return Val{T: False, GT: boolT}
		case "inmaprange":
			// inmaprange(): the clause is being evaluated inside the body of a loop that ranges over a map (whose
			// iteration order Go randomises)
			if e.mapRangeDepth > 0 {
				return Val{T: True, GT: boolT}
			}
			return Val{T: False, GT: boolT}
		case "collected":
			// collected(W, x): x was added to the ghost set W by a `collect` clause
			id0, ok := x.Args[0].(*ast.Ident)
			if !ok || len(x.Args) != 2 {
				e.fail(x.Pos(), "contract: collected(<set>, <value>)")
			}
			set, ok := e.ghostSet(st, id0.Name)
			if !ok {
				e.fail(x.Pos(), "contract: unknown ghost set %s", id0.Name)
			}
			v := arg(1)
			return Val{T: Select(set.T, v.T), GT: boolT}
		case "dyntype":
			// dyntype(x, T): the dynamic type of interface value x is T
			v := arg(0)
			t := e.resolveType(env, x.Args[1])
			return Val{T: e.hasDynType(st, v, t), GT: boolT}
		case "unbox":
			v := arg(0)
			t := e.resolveType(env, x.Args[1])
			return e.unbox(st, v, t)
		}
		if sp := e.prog.specFor(env.pkgPath, id.Name); sp != nil {
			var args []Val
			for i := range x.Args {
				args = append(args, arg(i))
			}
			return e.specCall(st, sp, args, env, x.Pos())
		}
		// conversion to a basic type or call to a package-level Go function (inlined)
		pkg := e.pkgTypes(env)
		if obj := pkg.Scope().Lookup(id.Name); obj != nil {
			switch o := obj.(type) {
			case *types.Func:
				var args []Val
				sig := o.Type().(*types.Signature)
				for i := range x.Args {
					a := arg(i)
					if i < sig.Params().Len() {
						a = e.convertTo(st, a, sig.Params().At(i).Type())
					}
					args = append(args, a)
				}
				return e.callFunc(e.specState(st), o, nil, e.packVariadic(st, sig, args), nil)
			case *types.TypeName:
				return e.conversion(st, arg(0), o.Type(), x.Pos())
			}
		}
		if obj := types.Universe.Lookup(id.Name); obj != nil {
			if tn, ok := obj.(*types.TypeName); ok {
				return e.conversion(st, arg(0), tn.Type(), x.Pos())
			}
		}
		e.fail(x.Pos(), "contract: unknown function %q", id.Name)
	}
	if sel, ok := x.Fun.(*ast.SelectorExpr); ok {
		// pkg.Func(...): a library function, used through its model / as a pure function
		if id, ok := sel.X.(*ast.Ident); ok {
			if _, local := e.tryResolve(st, env, id.Name); !local {
				pkg := e.pkgTypes(env)
				// a spec function of another package under contract: core.unprefixed(...)
				for path := range e.prog.contracts {
					if shortName(path) != id.Name {
						continue
					}
					if sp := e.prog.specFor(path, sel.Sel.Name); sp != nil {
						var args []Val
						for i := range x.Args {
							args = append(args, arg(i))
						}
						env2 := &cenv{vals: env.vals, resolve: env.resolve, old: env.old, pkgPath: path}
						return e.specCall(st, sp, args, env2, x.Pos())
					}
				}
				for _, imp := range pkg.Imports() {
					if imp.Name() != id.Name {
						continue
					}
					if fn, ok := imp.Scope().Lookup(sel.Sel.Name).(*types.Func); ok {
						sig := fn.Type().(*types.Signature)
						var args []Val
						for i := range x.Args {
							a := arg(i)
							if i < sig.Params().Len() {
								a = e.convertTo(st, a, sig.Params().At(i).Type())
							}
							args = append(args, a)
						}
						return e.callFunc(e.specState(st), fn, nil, e.packVariadic(st, sig, args), nil)
					}
				}
			}
		}
		// method call on a value: executed through the real method (by contract or inlined)
		recv := e.cev(st, sel.X, env)
		if recv.GT == nil {
			e.fail(x.Pos(), "contract: method call on untyped value")
		}
		var lookPkg *types.Package
		if n := namedOf(recv.GT); n != nil {
			lookPkg = n.Obj().Pkg()
		}
		obj, path, _ := types.LookupFieldOrMethod(recv.GT, true, lookPkg, sel.Sel.Name)
		fn, ok := obj.(*types.Func)
		if !ok {
			e.fail(x.Pos(), "contract: no method %s on %s", sel.Sel.Name, recv.GT)
		}
		if len(path) > 1 {
			recv = e.fieldPath(st, recv, path[:len(path)-1], x.Pos())
		}
		recv = e.adjustRecv(st, recv, fn, x.Pos())
		sig := fn.Type().(*types.Signature)
		var args []Val
		for i := range x.Args {
			a := arg(i)
			if i < sig.Params().Len() {
				a = e.convertTo(st, a, sig.Params().At(i).Type())
			}
			args = append(args, a)
		}
		return e.callFunc(e.specState(st), fn, &recv, e.packVariadic(st, sig, args), nil)
	}
	e.fail(x.Pos(), "contract: unsupported call")
	return Val{}
}

func (e *Exec) quant(st *State, forall bool, lit *ast.FuncLit, env *cenv) Val {
	boolT := types.Typ[types.Bool]
	n := env
	var binders []string
	var guards []Term
	for _, fld := range lit.Type.Params.List {
		t := e.resolveType(env, fld.Type)
		s := e.sr.sortOf(t)
		for _, nm := range fld.Names {
			e.sc.counter++
			vn := fmt.Sprintf("|%s?%d|", nm.Name, e.sc.counter)
			bv := Val{T: T(s, vn), GT: t}
			n = n.with(nm.Name, bv)
			binders = append(binders, fmt.Sprintf("(%s %s)", vn, s))
			if isSlcSort(s) {
				guards = append(guards, Ge(SlcLen(bv.T), IntLit(0)))
			}
			if isUnsigned(t) {
				guards = append(guards, Ge(bv.T, IntLit(0)))
			}
		}
	}
	ret, ok := lit.Body.List[0].(*ast.ReturnStmt)
	if !ok || len(ret.Results) != 1 {
		e.fail(lit.Pos(), "contract: malformed quantifier body")
	}
	e.sc.binders++
	body := e.cev(st, ret.Results[0], n)
	e.sc.binders--
	q := "forall"
	b := body.T
	if forall {
		b = Implies(And(guards...), b)
	} else {
		q = "exists"
		b = And(append(guards, b)...)
	}
	return Val{T: T(SBool, fmt.Sprintf("(%s (%s) %s)", q, strings.Join(binders, " "), b.S)), GT: boolT}
}

// specCall applies a spec function, declaring it on first use.
func (e *Exec) specCall(st *State, sp *SpecFunc, args []Val, env *cenv, pos token.Pos) Val {
	if true {
		return e.specApply(st, sp, args, env, pos)
	}
	key := env.pkgPath + "." + sp.Name
	fname := "|spec:" + shortName(env.pkgPath) + "." + sp.Name + "|"
	senv := &cenv{vals: map[string]Val{}, pkgPath: env.pkgPath}
	rt := e.resolveTypeStr(senv, sp.Ret)
	rs := e.sr.sortOf(rt)
	if len(args) != len(sp.Params) {
		e.fail(pos, "contract: spec %s expects %d arguments", sp.Name, len(sp.Params))
	}
	if !e.specDone[key] {
		e.specDone[key] = true
		var ps []string
		var sorts []string
		var names []string
		for _, p := range sp.Params {
			t := e.resolveTypeStr(senv, p.Type)
			s := e.sr.sortOf(t)
			vn := "|" + sp.Name + "." + p.Name + "|"
			senv.vals[p.Name] = Val{T: T(s, vn), GT: t}
			ps = append(ps, fmt.Sprintf("(%s %s)", vn, s))
			sorts = append(sorts, s)
			names = append(names, vn)
		}
		switch {
		case sp.Body == nil:
			e.sc.decls = append(e.sc.decls, fmt.Sprintf("(declare-fun %s (%s) %s)", fname, strings.Join(sorts, " "), rs))
		case sp.Rec:
			e.sc.decls = append(e.sc.decls, fmt.Sprintf("(declare-fun %s (%s) %s)", fname, strings.Join(sorts, " "), rs))
			e.sc.binders++
			saved := e.inContract
			e.inContract++
			body := e.cev(st, sp.Body, senv)
			e.inContract = saved
			e.sc.binders--
			app := "(" + fname + " " + strings.Join(names, " ") + ")"
			e.sc.Assert(T(SBool, fmt.Sprintf("(forall (%s) (! (= %s %s) :pattern (%s)))", strings.Join(ps, " "), app, body.T.S, app)))
		default:
			e.sc.binders++
			saved := e.inContract
			e.inContract++
			body := e.cev(st, sp.Body, senv)
			e.inContract = saved
			e.sc.binders--
			if body.T.Sort != rs {
				e.fail(pos, "contract: spec %s body has sort %s, declared %s", sp.Name, body.T.Sort, rs)
			}
			e.sc.decls = append(e.sc.decls, fmt.Sprintf("(define-fun %s (%s) %s %s)", fname, strings.Join(ps, " "), rs, body.T.S))
		}
	}
	var ts []Term
	for i, a := range args {
		t := e.resolveTypeStr(senv, sp.Params[i].Type)
		a = e.convertTo(st, a, t)
		ts = append(ts, a.T)
	}
	if len(ts) == 0 {
		return Val{T: T(rs, fname), GT: rt}
	}
	return Val{T: App(rs, fname, ts...), GT: rt}
}
