package main

// Spec functions. A spec function is a pure function of its arguments *and of the heaps it reads*: every
// heap read while its body is evaluated becomes an implicit extra parameter, and each application passes
// the heaps of the state it is applied in (so old(f(x)) and f(x) differ exactly by the heap).

import (
	"fmt"
	"go/token"
	"go/types"
	"strings"
)

type heapParam struct {
	name string
	sort string
}

type specInfo struct {
	fname string
	heaps []heapParam
	rs    string
	rt    types.Type
	ptys  []types.Type
}

func (e *Exec) specApply(st *State, sp *SpecFunc, args []Val, env *cenv, pos token.Pos) Val {
	key := env.pkgPath + "." + sp.Name
	if e.specs == nil {
		e.specs = map[string]*specInfo{}
	}
	if len(args) != len(sp.Params) {
		e.fail(pos, "contract: spec %s expects %d arguments", sp.Name, len(sp.Params))
	}
	si := e.specs[key]
	if si == nil {
		si = &specInfo{fname: "|spec:" + shortName(env.pkgPath) + "." + sp.Name + "|"}
		e.specs[key] = si
		senv := &cenv{vals: map[string]Val{}, pkgPath: env.pkgPath}
		si.rt = e.resolveTypeStr(senv, sp.Ret)
		si.rs = e.sr.sortOf(si.rt)
		var ps, sorts, names []string
		for _, p := range sp.Params {
			t := e.resolveTypeStr(senv, p.Type)
			s := e.sr.sortOf(t)
			vn := "|" + sp.Name + "." + p.Name + "|"
			senv.vals[p.Name] = Val{T: T(s, vn), GT: t}
			ps = append(ps, fmt.Sprintf("(%s %s)", vn, s))
			sorts = append(sorts, s)
			names = append(names, vn)
			si.ptys = append(si.ptys, t)
		}
		switch {
		case sp.Body == nil:
			e.sc.decls = append(e.sc.decls, fmt.Sprintf("(declare-fun %s (%s) %s)", si.fname, strings.Join(sorts, " "), si.rs))
		default:
			var hp []heapParam
			sst := &State{pc: True, vars: map[types.Object]Val{}, heaps: map[string]Term{}, ghosts: map[string]Val{}, specHeaps: &hp}
			if sp.Rec {
				e.sc.decls = append(e.sc.decls, fmt.Sprintf("(declare-fun %s (%s) %s)", si.fname, strings.Join(sorts, " "), si.rs))
			}
			e.sc.binders++
			saved := e.inContract
			e.inContract++
			body := e.cev(sst, sp.Body, senv)
			e.inContract = saved
			e.sc.binders--
			if body.T.Sort != si.rs {
				e.fail(pos, "contract: spec %s body has sort %s, declared %s", sp.Name, body.T.Sort, si.rs)
			}
			if sp.Rec {
				if len(hp) > 0 {
					e.fail(pos, "contract: recursive spec %s may not read the heap", sp.Name)
				}
				app := "(" + si.fname + " " + strings.Join(names, " ") + ")"
				e.sc.Assert(T(SBool, fmt.Sprintf("(forall (%s) (! (= %s %s) :pattern (%s)))", strings.Join(ps, " "), app, body.T.S, app)))
			} else {
				si.heaps = hp
				for _, h := range hp {
					ps = append(ps, fmt.Sprintf("(%s %s)", specHeapVar(h.name), h.sort))
				}
				e.sc.decls = append(e.sc.decls, fmt.Sprintf("(define-fun %s (%s) %s %s)", si.fname, strings.Join(ps, " "), si.rs, body.T.S))
			}
		}
	}
	var ts []Term
	for i, a := range args {
		a = e.convertTo(st, a, si.ptys[i])
		if isNilVal(a) {
			a = e.zero(si.ptys[i])
		}
		ts = append(ts, a.T)
	}
	for _, h := range si.heaps {
		ts = append(ts, e.heapRead(st, h.name, h.sort))
	}
	if len(ts) == 0 {
		return Val{T: T(si.rs, si.fname), GT: si.rt}
	}
	return Val{T: App(si.rs, si.fname, ts...), GT: si.rt}
}

func specHeapVar(name string) string { return "|heap?" + sanitize(name) + "|" }

// specHeapRead is heapRead inside a spec body: the heap is a parameter of the spec function.
func (e *Exec) specHeapRead(st *State, name, sort string) Term {
	if h, ok := st.heaps[name]; ok {
		return h
	}
	h := T(sort, specHeapVar(name))
	st.heaps[name] = h
	*st.specHeaps = append(*st.specHeaps, heapParam{name, sort})
	return h
}
