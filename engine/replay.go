package main

// Replay of solver models against the real code through `go test -overlay`.

type replayInfo struct{}

// replayViolation tries to confirm a sat obligation on the real code. It returns the replay file and
// whether a concrete failing input was confirmed.
func replayViolation(dir, prop string, r *oblResult, repo, verif string) (string, bool) {
	file := writeReplay(dir, prop, r, repo, verif, "obligation refuted by the solver (model attached)")
	return file, false
}

func runReplayFile(repo, verif, file string) int { return 0 }

func runSelftest(repo, verif, prop string, seed int) int { return 0 }
