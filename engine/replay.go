package main

// Replay: confirming a failed postcondition on the real code.
//
// Candidate inputs come from the solver's model (when it gives one) or from a small type-driven
// enumeration. An in-package Go test, injected with `go test -overlay` (nothing is written into /repo),
// calls the real function on each candidate and prints its results as SMT terms. The clause is then
// re-evaluated by the solver on (inputs, observed outputs): if it is false there, the violation is
// confirmed with a concrete failing input.
//
// Replayable: functions whose parameters are values (basic types, structs of basic types, slices of those)
// or pointers to repository structs that the function only reads (contract `modifies nothing`).

import (
	"regexp"
	"bytes"
	"context"
	"encoding/json"
	"fmt"
	"go/ast"
	"go/types"
	"math/rand"
	"os"
	"os/exec"
	"path/filepath"
	"sort"
	"strconv"
	"strings"
	"time"
)

type replayInfo struct{}

type replayOutcome struct {
	file string
	ok   bool
}

var replayMemo = map[string]replayOutcome{}

// replayCases: number of candidate inputs actually executed on the real code, per obligation
var replayCases = map[string]int{}

// boundedOK: bounded stand-ins that ran and found no failing input (reported in the evidence, never as proved)
var boundedOK []map[string]any

// cval is a concrete value of a Go type.
type cval struct {
	t      types.Type
	kind   string // int bool string struct slice ptr nil opaque
	i      int64
	b      bool
	s      string
	fields []*cval // struct: one per field (nil = unsupported field, left zero)
	elems  []*cval
	elem   *cval // ptr pointee
}

type replayParam struct {
	name string
	t    types.Type
	recv bool
}

type replayCtx struct {
	prog   *Program
	fc     *FuncContract
	cl     *Clause
	e      *Exec // fresh executor used for the ground check
	st     *State
	env    *cenv
	params []replayParam
	ins    map[string]Val
	outs   []Val
	sig    *types.Signature
	pkg    *types.Package
	node   ast.Node
	goal   Term
	pre    Term
	qual   types.Qualifier
	refN   int
}

func supportedScalar(t types.Type) bool {
	b, ok := t.Underlying().(*types.Basic)
	return ok && b.Info()&(types.IsBoolean|types.IsInteger|types.IsString) != 0
}

// replayable reports whether values of t can be built, printed and encoded.
func replayable(t types.Type, depth int) bool {
	if depth > 3 {
		return false
	}
	switch u := t.Underlying().(type) {
	case *types.Basic:
		return supportedScalar(t)
	case *types.Struct:
		if n, ok := types.Unalias(t).(*types.Named); ok && n.Obj().Pkg() != nil && !strings.Contains(n.Obj().Pkg().Path(), "thought-machine/please") {
			return false
		}
		return true // unsupported fields are left zero
	case *types.Slice:
		return replayable(u.Elem(), depth+1)
	case *types.Pointer:
		_, isStruct := u.Elem().Underlying().(*types.Struct)
		return isStruct && replayable(u.Elem(), depth+1)
	}
	return false
}

func fieldReplayable(t types.Type) bool {
	switch u := t.Underlying().(type) {
	case *types.Basic:
		return supportedScalar(t)
	case *types.Slice:
		switch eu := u.Elem().Underlying().(type) {
		case *types.Basic:
			return supportedScalar(u.Elem())
		case *types.Struct:
			for i := 0; i < eu.NumFields(); i++ {
				if !supportedScalar(eu.Field(i).Type()) {
					return false
				}
			}
			return true
		}
	case *types.Struct:
		for i := 0; i < u.NumFields(); i++ {
			if !supportedScalar(u.Field(i).Type()) {
				return false
			}
		}
		return true
	case *types.Pointer:
		// nil / non-nil only (e.g. target.Test != nil)
		_, ok := u.Elem().Underlying().(*types.Struct)
		return ok
	}
	return false
}

func newReplayCtx(prog *Program, fc *FuncContract, clauseName string) (*replayCtx, string) {
	var cl *Clause
	for _, c := range fc.Ensures {
		if c.Name == clauseName {
			cl = c
		}
	}
	if cl == nil {
		return nil, "clause not found"
	}
	node, pkg, _ := prog.findTarget(fc.Pkg, fc.Key)
	if node == nil {
		return nil, "function not found"
	}
	rc := &replayCtx{prog: prog, fc: fc, cl: cl, pkg: pkg.Types, node: node, ins: map[string]Val{}}
	rc.qual = func(p *types.Package) string {
		if p == pkg.Types {
			return ""
		}
		return p.Name()
	}
	info := pkg.TypesInfo
	var ft *ast.FuncType
	var recvList *ast.FieldList
	switch n := node.(type) {
	case *ast.FuncDecl:
		ft, recvList = n.Type, n.Recv
		rc.sig = info.Defs[n.Name].Type().(*types.Signature)
	default:
		return nil, "function literals are not replayable"
	}
	if rc.sig.TypeParams() != nil || rc.sig.RecvTypeParams() != nil {
		return nil, "generic functions are not replayable"
	}
	readOnly := fc.ModSet && len(fc.Modifies) == 0
	add := func(id *ast.Ident, recv bool) string {
		obj := info.Defs[id]
		if obj == nil || id.Name == "_" {
			return "unnamed parameter"
		}
		if !replayable(obj.Type(), 0) {
			return "parameter " + id.Name + " of type " + obj.Type().String() + " is not replayable"
		}
		if _, isPtr := obj.Type().Underlying().(*types.Pointer); isPtr && !readOnly {
			return "pointer parameter of a function that is not `modifies nothing`"
		}
		rc.params = append(rc.params, replayParam{id.Name, obj.Type(), recv})
		return ""
	}
	if recvList != nil {
		for _, f := range recvList.List {
			for _, nm := range f.Names {
				if why := add(nm, true); why != "" {
					return nil, why
				}
			}
		}
	}
	for _, f := range ft.Params.List {
		if len(f.Names) == 0 {
			return nil, "unnamed parameter"
		}
		for _, nm := range f.Names {
			if why := add(nm, false); why != "" {
				return nil, why
			}
		}
	}
	for i := 0; i < rc.sig.Results().Len(); i++ {
		t := rc.sig.Results().At(i).Type()
		if types.Identical(t, errorType()) {
			continue
		}
		if _, isPtr := t.Underlying().(*types.Pointer); isPtr || !replayable(t, 0) {
			return nil, "result type " + t.String() + " is not replayable"
		}
	}
	// a fresh executor in which the clause is evaluated over input and output constants
	short := shortName(fc.Pkg) + "." + fc.Key
	e := newExec(prog, short)
	fr := &callFrame{name: short, pkg: pkg, node: node, sig: rc.sig, contract: fc, top: true, closures: map[types.Object]*Closure{}}
	e.frames = []*callFrame{fr}
	st := &State{pc: True, vars: map[types.Object]Val{}, heaps: map[string]Term{}, ghosts: map[string]Val{}}
	env := &cenv{vals: map[string]Val{}, pkgPath: fc.Pkg}
	failed := ""
	func() {
		defer func() {
			if r := recover(); r != nil {
				if u, ok := r.(unsupported); ok {
					failed = u.msg
					return
				}
				panic(r)
			}
		}()
		for _, p := range rc.params {
			s := e.sr.sortOf(p.t)
			v := Val{T: e.sc.Const("in:"+p.name, s), GT: p.t}
			env.vals[p.name] = v
			rc.ins[p.name] = v
		}
		e.assertAxioms(fc.Pkg, nil)
		pre := True
		for _, r := range fc.Requires {
			pre = And(pre, e.evContract(st, r.Expr, env))
		}
		rc.pre = pre
		old := st.clone()
		oldStates[fr] = old
		env.old = old
		var res Val
		n := rc.sig.Results().Len()
		var outs []Val
		for i := 0; i < n; i++ {
			t := rc.sig.Results().At(i).Type()
			outs = append(outs, Val{T: e.sc.Const(fmt.Sprintf("out:%d", i), e.sr.sortOf(t)), GT: t})
		}
		rc.outs = outs
		switch n {
		case 0:
		case 1:
			res = outs[0]
		default:
			res = Val{Tuple: outs}
		}
		if n > 0 {
			bindResults(env, rc.sig, res)
		}
		rc.goal = e.evContract(st, cl.Expr, env)
	}()
	if failed != "" {
		return nil, "clause cannot be evaluated standalone: " + failed
	}
	rc.e, rc.st, rc.env = e, st, env
	return rc, ""
}

// ---------------------------------------------------------------------------------------
// concrete values: enumeration

var enumStrings = []string{"", "a", "b", "ab", "a/b", "a/", "/", ".", "..", "...", "all", "test", "a*", "*", "_a#b", "ab/c", "abc", "=", "a b"}

func (rc *replayCtx) enumVal(t types.Type, rng *rand.Rand, depth int, pool []string) *cval {
	switch u := t.Underlying().(type) {
	case *types.Basic:
		switch {
		case u.Info()&types.IsBoolean != 0:
			return &cval{t: t, kind: "bool", b: rng.Intn(2) == 0}
		case u.Info()&types.IsString != 0:
			return &cval{t: t, kind: "string", s: pool[rng.Intn(len(pool))]}
		case u.Info()&types.IsInteger != 0:
			vals := []int64{0, 1, 2, 3, 5, 27, 28, 29, 43, 44, 45, -1}
			v := vals[rng.Intn(len(vals))]
			if u.Info()&types.IsUnsigned != 0 && v < 0 {
				v = 0
			}
			if u.Kind() == types.Uint8 {
				v = v % 4
			}
			return &cval{t: t, kind: "int", i: v}
		}
	case *types.Struct:
		c := &cval{t: t, kind: "struct"}
		for i := 0; i < u.NumFields(); i++ {
			ft := u.Field(i).Type()
			if depth < 3 && fieldReplayable(ft) {
				if _, isPtr := ft.Underlying().(*types.Pointer); isPtr {
					if rng.Intn(2) == 0 {
						c.fields = append(c.fields, &cval{t: ft, kind: "nil"})
					} else {
						c.fields = append(c.fields, &cval{t: ft, kind: "ptr", elem: &cval{t: ft.Underlying().(*types.Pointer).Elem(), kind: "opaque"}})
					}
					continue
				}
				c.fields = append(c.fields, rc.enumVal(ft, rng, depth+1, pool))
			} else {
				c.fields = append(c.fields, nil)
			}
		}
		return c
	case *types.Slice:
		n := rng.Intn(3)
		c := &cval{t: t, kind: "slice"}
		for i := 0; i < n; i++ {
			c.elems = append(c.elems, rc.enumVal(u.Elem(), rng, depth+1, pool))
		}
		return c
	case *types.Pointer:
		return &cval{t: t, kind: "ptr", elem: rc.enumVal(u.Elem(), rng, depth+1, pool)}
	}
	return &cval{t: t, kind: "opaque"}
}

// stringPool collects string constants from the function and its contract: they steer the enumeration.
func (rc *replayCtx) stringPool() []string {
	seen := map[string]bool{}
	pool := append([]string{}, enumStrings...)
	for _, s := range pool {
		seen[s] = true
	}
	add := func(s string) {
		if !seen[s] && len(s) <= 12 {
			seen[s] = true
			pool = append(pool, s)
		}
	}
	ast.Inspect(rc.node, func(n ast.Node) bool {
		if bl, ok := n.(*ast.BasicLit); ok && bl.Kind.String() == "STRING" {
			if s, err := strconv.Unquote(bl.Value); err == nil {
				add(s)
				add("a" + s)
				add(s + "a")
				add("a" + s + "b")
			}
		}
		return true
	})
	// string literals of the contract's own clauses (a clause about "(" needs inputs containing "(")
	if rc.fc != nil {
		lit := regexp.MustCompile("\"((?:[^\"\\\\]|\\\\.)*)\"")
		for _, cs := range [][]*Clause{rc.fc.Requires, rc.fc.Ensures} {
			for _, c := range cs {
				for _, m := range lit.FindAllString(c.Src, -1) {
					if s, err := strconv.Unquote(m); err == nil && s != "" {
						add(s)
						add("a" + s)
						add("a" + s + "b")
					}
				}
			}
		}
	}
	return pool
}

// ---------------------------------------------------------------------------------------
// concrete values: Go literals and SMT terms

func (c *cval) goLit(q types.Qualifier) string {
	if c == nil {
		return ""
	}
	ts := types.TypeString(c.t, q)
	switch c.kind {
	case "bool":
		return fmt.Sprintf("%s(%v)", ts, c.b)
	case "int":
		return fmt.Sprintf("%s(%d)", ts, c.i)
	case "string":
		return fmt.Sprintf("%s(%s)", ts, strconv.Quote(c.s))
	case "nil":
		return "nil"
	case "struct":
		st := c.t.Underlying().(*types.Struct)
		var parts []string
		for i, f := range c.fields {
			if f != nil {
				parts = append(parts, st.Field(i).Name()+": "+f.goLit(q))
			}
		}
		return ts + "{" + strings.Join(parts, ", ") + "}"
	case "slice":
		var parts []string
		for _, el := range c.elems {
			parts = append(parts, el.goLit(q))
		}
		if len(parts) == 0 {
			return ts + "{}"
		}
		return ts + "{" + strings.Join(parts, ", ") + "}"
	case "ptr":
		if c.elem.kind == "opaque" {
			return "new(" + types.TypeString(c.elem.t, q) + ")"
		}
		return "&" + c.elem.goLit(q)
	}
	return "*new(" + ts + ")"
}

// smtTerm encodes the value; pointers become reference ids whose pointees are returned as heap facts.
func (rc *replayCtx) smtTerm(c *cval, heapFacts *[]Term) Term {
	e := rc.e
	s := e.sr.sortOf(c.t)
	switch c.kind {
	case "bool":
		return BoolLit(c.b)
	case "int":
		return IntLit(c.i)
	case "string":
		return StrLit(c.s)
	case "nil":
		return IntLit(0)
	case "struct":
		si := e.sr.structInfoOf(s)
		if si == nil {
			return e.zeroOfSort(s, c.t)
		}
		args := make([]Term, len(si.Fields))
		for i, f := range si.Fields {
			if i < len(c.fields) && c.fields[i] != nil {
				args[i] = rc.smtTerm(c.fields[i], heapFacts)
			} else {
				args[i] = e.zeroOfSort(f.Sort, f.GT)
			}
		}
		return si.mk(args)
	case "slice":
		el := slcElem(s)
		var et types.Type
		if sl, ok := c.t.Underlying().(*types.Slice); ok {
			et = sl.Elem()
		}
		arr := e.constArray(SInt, el, et)
		for i, x := range c.elems {
			arr = Store(arr, IntLit(int64(i)), rc.smtTerm(x, heapFacts))
		}
		return MkSlc(el, arr, IntLit(int64(len(c.elems))), True)
	case "ptr":
		rc.refN++
		ref := IntLit(int64(rc.refN))
		if c.elem.kind != "opaque" {
			hn, hs := e.ptrHeap(c.elem.t)
			h := e.heapRead(rc.st, hn, hs)
			*heapFacts = append(*heapFacts, Eq(Select(h, ref), rc.smtTerm(c.elem, heapFacts)))
		}
		return ref
	}
	return e.zeroOfSort(s, c.t)
}

// ---------------------------------------------------------------------------------------
// test generation

func (rc *replayCtx) printer(b *strings.Builder, expr string, t types.Type, depth int) bool {
	e := rc.e
	switch u := t.Underlying().(type) {
	case *types.Basic:
		switch {
		case u.Info()&types.IsBoolean != 0:
			fmt.Fprintf(b, "\tif %s { w.WriteString(\"true\") } else { w.WriteString(\"false\") }\n", expr)
		case u.Info()&types.IsString != 0:
			fmt.Fprintf(b, "\tw.WriteString(verifSmtStr(string(%s)))\n", expr)
		case u.Info()&types.IsInteger != 0:
			fmt.Fprintf(b, "\tw.WriteString(verifSmtInt(int64(%s)))\n", expr)
		default:
			return false
		}
		return true
	case *types.Interface:
		if types.Identical(t, errorType()) {
			fmt.Fprintf(b, "\tif %s == nil { w.WriteString(\"0\") } else { w.WriteString(\"1\") }\n", expr)
			return true
		}
		return false
	case *types.Struct:
		s := e.sr.sortOf(t)
		si := e.sr.structInfoOf(s)
		if si == nil || depth > 3 {
			return false
		}
		if len(si.Fields) == 0 {
			fmt.Fprintf(b, "\tw.WriteString(%q)\n", si.Ctor)
			return true
		}
		fmt.Fprintf(b, "\tw.WriteString(%q)\n", "("+si.Ctor)
		for i, f := range si.Fields {
			fmt.Fprintf(b, "\tw.WriteString(\" \")\n")
			if !rc.printer(b, expr+"."+f.Name, u.Field(i).Type(), depth+1) {
				// unsupported field: its zero term
				fmt.Fprintf(b, "\tw.WriteString(%q)\n", e.zeroOfSort(f.Sort, f.GT).S)
			}
		}
		fmt.Fprintf(b, "\tw.WriteString(\")\")\n")
		return true
	case *types.Slice:
		s := e.sr.sortOf(t)
		el := slcElem(s)
		zero := e.constArray(SInt, el, u.Elem()).S
		v := fmt.Sprintf("v%d", depth)
		fmt.Fprintf(b, "\t{\n\tarr := %q\n\tfor i, %s := range %s {\n\t_ = %s\n\tvar w2 strings.Builder\n\t{\n\tw := &w2\n", zero, v, expr, v)
		if !rc.printer(b, v, u.Elem(), depth+1) {
			return false
		}
		fmt.Fprintf(b, "\t}\n\tarr = \"(store \" + arr + \" \" + verifSmtInt(int64(i)) + \" \" + w2.String() + \")\"\n\t}\n")
		fmt.Fprintf(b, "\tnn := \"true\"\n\tif %s == nil { nn = \"false\" }\n", expr)
		fmt.Fprintf(b, "\tw.WriteString(\"((as mk_slc %s) \" + arr + \" \" + verifSmtInt(int64(len(%s))) + \" \" + nn + \")\")\n\t}\n", s, expr)
		return true
	}
	return false
}

func (rc *replayCtx) testSource(cases [][]*cval) (string, bool) {
	var b strings.Builder
	fmt.Fprintf(&b, "package %s\n\nimport (\n\t\"fmt\"\n\t\"os\"\n\t\"strings\"\n\t\"testing\"\n)\n\n", rc.pkg.Name())
	b.WriteString(`func verifSmtStr(s string) string {
	var b strings.Builder
	b.WriteByte('"')
	for i := 0; i < len(s); i++ {
		c := s[i]
		switch {
		case c == '"':
			b.WriteString("\"\"")
		case c == '\\':
			b.WriteString("\\u{5c}")
		case c >= 0x20 && c < 0x7f:
			b.WriteByte(c)
		default:
			fmt.Fprintf(&b, "\\u{%x}", c)
		}
	}
	b.WriteByte('"')
	return b.String()
}

func verifSmtInt(i int64) string {
	if i < 0 {
		return fmt.Sprintf("(- %d)", -i)
	}
	return fmt.Sprintf("%d", i)
}

var _ = os.Stdout

`)
	fd := rc.node.(*ast.FuncDecl)
	fmt.Fprintf(&b, "func TestVerifReplay(t *testing.T) {\n")
	for ci, c := range cases {
		fmt.Fprintf(&b, "\tfunc() {\n\tvar w = &strings.Builder{}\n\tdefer func() {\n\t\tif r := recover(); r != nil {\n\t\t\tfmt.Printf(\"VERIF-CASE %d PANIC %%v\\n\", r)\n\t\t}\n\t}()\n", ci)
		var args []string
		recv := ""
		for pi, p := range rc.params {
			fmt.Fprintf(&b, "\tp%d := %s\n", pi, c[pi].goLit(rc.qual))
			if p.recv {
				recv = fmt.Sprintf("p%d", pi)
			} else {
				args = append(args, fmt.Sprintf("p%d", pi))
			}
		}
		call := fd.Name.Name + "(" + strings.Join(args, ", ") + ")"
		if recv != "" {
			call = recv + "." + call
		}
		n := rc.sig.Results().Len()
		if n == 0 {
			fmt.Fprintf(&b, "\t%s\n", call)
		} else {
			var rs []string
			for i := 0; i < n; i++ {
				rs = append(rs, fmt.Sprintf("r%d", i))
			}
			fmt.Fprintf(&b, "\t%s := %s\n", strings.Join(rs, ", "), call)
			for i := 0; i < n; i++ {
				if i > 0 {
					fmt.Fprintf(&b, "\tw.WriteString(\" ;; \")\n")
				}
				if !rc.printer(&b, rs[i], rc.sig.Results().At(i).Type(), 0) {
					return "", false
				}
			}
		}
		fmt.Fprintf(&b, "\tfmt.Printf(\"VERIF-CASE %d OK %%s\\n\", w.String())\n\t}()\n", ci)
	}
	fmt.Fprintf(&b, "}\n")
	return b.String(), true
}

// runTest runs the injected test through an overlay and returns the VERIF-CASE lines.
func (rc *replayCtx) runTest(repo, workDir, src string) (map[int]string, string) {
	os.MkdirAll(workDir, 0o755)
	pkgDir := filepath.Join(repo, strings.TrimPrefix(rc.fc.Pkg, modulePath+"/"))
	testFile := filepath.Join(workDir, "zz_verif_replay_test.go")
	if err := os.WriteFile(testFile, []byte(src), 0o644); err != nil {
		return nil, err.Error()
	}
	replace := map[string]string{filepath.Join(pkgDir, "zz_verif_replay_test.go"): testFile}
	// mask the package's own test files: some have a TestMain that only works under plz
	if ents, err := os.ReadDir(pkgDir); err == nil {
		for _, en := range ents {
			if strings.HasSuffix(en.Name(), "_test.go") {
				replace[filepath.Join(pkgDir, en.Name())] = ""
			}
		}
	}
	ov, _ := json.Marshal(map[string]any{"Replace": replace})
	ovFile := filepath.Join(workDir, "overlay.json")
	os.WriteFile(ovFile, ov, 0o644)
	ctx, cancel := context.WithTimeout(context.Background(), 180*time.Second)
	defer cancel()
	rel := "./" + strings.TrimPrefix(rc.fc.Pkg, modulePath+"/")
	cmd := exec.CommandContext(ctx, "go", "test", "-overlay", ovFile, "-vet=off", "-count=1", "-timeout", "60s", "-v", "-run", "^TestVerifReplay$", rel)
	cmd.Dir = repo
	var out bytes.Buffer
	cmd.Stdout = &out
	cmd.Stderr = &out
	cmd.Run()
	res := map[int]string{}
	for _, l := range strings.Split(out.String(), "\n") {
		if strings.HasPrefix(l, "VERIF-CASE ") {
			f := strings.SplitN(l, " ", 4)
			if len(f) >= 3 {
				n, _ := strconv.Atoi(f[1])
				rest := ""
				if len(f) == 4 {
					rest = f[3]
				}
				res[n] = f[2] + " " + rest
			}
		}
	}
	return res, out.String()
}

// groundCheck asks the solver whether the clause is false on (inputs, observed outputs).
func (rc *replayCtx) groundCheck(dir, name string, c []*cval, observed string, idx int) (bool, string) {
	var facts []Term
	rc.refN = 0
	for pi, p := range rc.params {
		facts = append(facts, Eq(rc.ins[p.name].T, rc.smtTerm(c[pi], &facts)))
	}
	parts := strings.Split(observed, " ;; ")
	if len(parts) != len(rc.outs) {
		return false, "output arity mismatch"
	}
	for i, o := range rc.outs {
		facts = append(facts, Eq(o.T, T(o.T.Sort, strings.TrimSpace(parts[i]))))
	}
	nd, na := rc.e.sc.Mark()
	// The clause must be false on these values under EVERY interpretation of the uninterpreted functions
	// it mentions (otherwise a "failure" could be an artefact of an abstraction): inputs+precondition must be
	// consistent, and inputs+precondition+clause must be unsatisfiable.
	base := append(append([]Term{}, facts...), rc.pre)
	q1 := rc.e.sc.Query(nd, na, base, nil)
	r1 := Solve(dir, fmt.Sprintf("%s-ground-%d-pre", name, idx), q1, 10, false, 0)
	if r1.Status == "unsat" {
		return false, "precondition not satisfied by this input"
	}
	q2 := rc.e.sc.Query(nd, na, append(base, rc.goal), nil)
	r2 := Solve(dir, fmt.Sprintf("%s-ground-%d", name, idx), q2, 10, false, 0)
	return r2.Status == "unsat", "clause unsatisfiable on observed values: " + r2.Status
}

// replayViolation tries to confirm a failed obligation on the real code. It returns the replay file and
// whether a concrete failing input was confirmed.
func replayViolation(dir, prop string, r *oblResult, repo, verif string) (string, bool) {
	reason := "obligation refuted by the solver (model attached)"
	if r.R.Status != "sat" {
		reason = "claimed obligation no longer discharges: " + r.R.Status
	}
	file := writeReplay(dir, prop, r, repo, verif, reason)
	if r.Fn.Contract == nil || r.Fn.Prog == nil {
		return file, false
	}
	if r.O.Kind != "post" {
		// An invariant, call-site or frame obligation failed: the function's postconditions are then
		// tried on the real code (a broken invariant normally shows as a wrong result for some input).
		for _, en := range r.Fn.Contract.Ensures {
			if !hasProp(en.Props, prop) {
				continue
			}
			sub := &oblResult{O: &Obligation{Name: r.Fn.Name + "#post:" + en.Name, Kind: "post", Clause: en.Src, Pos: r.O.Pos}, R: SolveResult{Status: "via " + r.O.Name}, Fn: r.Fn}
			key := prop + "|" + sub.O.Name
			res, done := replayMemo[key]
			if !done {
				f2, ok := replayViolation(dir, prop, sub, repo, verif)
				res = replayOutcome{f2, ok}
				replayMemo[key] = res
			}
			if res.ok {
				// attach the confirmed replay to this obligation's file
				if b, err := os.ReadFile(res.file); err == nil {
					var m2, m map[string]any
					if json.Unmarshal(b, &m2) == nil {
						if b1, err := os.ReadFile(file); err == nil && json.Unmarshal(b1, &m) == nil {
							m["replay"] = m2["replay"]
							m["replay_via_clause"] = en.Name
							nb, _ := json.MarshalIndent(m, "", " ")
							os.WriteFile(file, nb, 0o644)
						}
					}
				}
				return file, true
			}
		}
		return file, false
	}
	i := strings.Index(r.O.Name, "#post:")
	if i < 0 {
		return file, false
	}
	rc, why := newReplayCtx(r.Fn.Prog, r.Fn.Contract, r.O.Name[i+6:])
	note := map[string]any{}
	amend := func() {
		b, err := os.ReadFile(file)
		if err != nil {
			return
		}
		var m map[string]any
		if json.Unmarshal(b, &m) != nil {
			return
		}
		m["replay"] = note
		nb, _ := json.MarshalIndent(m, "", " ")
		os.WriteFile(file, nb, 0o644)
	}
	if rc == nil {
		note["status"] = "not replayable: " + why
		amend()
		return file, false
	}
	seed := int64(1)
	if s := os.Getenv("VERIF_SEED"); s != "" {
		if n, err := strconv.ParseInt(s, 10, 64); err == nil {
			seed = n
		}
	}
	rng := rand.New(rand.NewSource(seed))
	pool := rc.stringPool()
	var cases [][]*cval
	// candidate from the solver's model, if it produced one
	if mc := rc.fromModel(r); mc != nil {
		cases = append(cases, mc)
		note["model_candidate"] = true
	}
	for len(cases) < 160 {
		var c []*cval
		for _, p := range rc.params {
			c = append(c, rc.enumVal(p.t, rng, 0, pool))
		}
		cases = append(cases, c)
	}
	src, ok := rc.testSource(cases)
	if !ok {
		note["status"] = "not replayable: result type cannot be printed"
		amend()
		return file, false
	}
	work := filepath.Join(verif, "out", "replay", "work-"+fileSafe(r.O.Name))
	results, raw := rc.runTest(repo, work, src)
	note["test_file"] = filepath.Join(work, "zz_verif_replay_test.go")
	note["cases_run"] = len(results)
	replayCases[r.O.Name] = len(results)
	if len(results) == 0 {
		note["status"] = "replay test produced no cases"
		note["test_output"] = truncate(raw, 3000)
		amend()
		return file, false
	}
	keys := make([]int, 0, len(results))
	for k := range results {
		keys = append(keys, k)
	}
	sort.Ints(keys)
	smtDir := filepath.Join(verif, "out", "smt", prop, "replay")
	checked := 0
	for _, k := range keys {
		res := results[k]
		if !strings.HasPrefix(res, "OK ") {
			continue // a panic on this input: not a postcondition failure
		}
		checked++
		bad, st := rc.groundCheck(smtDir, fileSafe(r.O.Name), cases[k], strings.TrimPrefix(res, "OK "), k)
		if bad {
			var ins []string
			for pi, p := range rc.params {
				ins = append(ins, p.name+" = "+cases[k][pi].goLit(rc.qual))
			}
			note["status"] = "confirmed on the real code"
			note["failing_input"] = ins
			note["observed_output"] = strings.TrimPrefix(res, "OK ")
			note["clause"] = rc.cl.Src
			note["from_model"] = k == 0 && note["model_candidate"] == true
			note["ground_check"] = st
			amend()
			return file, true
		}
	}
	note["status"] = fmt.Sprintf("no failing input among %d candidates (%d checked)", len(cases), checked)
	amend()
	return file, false
}

// fromModel turns the solver's model of a refuted obligation into a candidate input, where the model
// values requested with the query suffice (scalars, small structs, short slices).
func (rc *replayCtx) fromModel(r *oblResult) []*cval {
	if r.R.Status != "sat" || len(r.R.Model) == 0 {
		return nil
	}
	norm := map[string]string{}
	for k, v := range r.R.Model {
		norm[strings.ReplaceAll(k, "|", "")] = v
	}
	byLabel := map[string]string{}
	for _, m := range r.O.Models {
		if v, ok := norm[strings.ReplaceAll(m.Term, "|", "")]; ok {
			byLabel[m.Label] = v
		}
	}
	var build func(label string, t types.Type, depth int) *cval
	build = func(label string, t types.Type, depth int) *cval {
		switch u := t.Underlying().(type) {
		case *types.Basic:
			v, ok := byLabel[label]
			if !ok {
				return nil
			}
			switch {
			case u.Info()&types.IsBoolean != 0:
				return &cval{t: t, kind: "bool", b: v == "true"}
			case u.Info()&types.IsString != 0:
				s, ok := decodeSMTString(v)
				if !ok {
					return nil
				}
				return &cval{t: t, kind: "string", s: s}
			case u.Info()&types.IsInteger != 0:
				v = strings.NewReplacer("(", "", ")", "", " ", "").Replace(v)
				n, err := strconv.ParseInt(v, 10, 64)
				if err != nil {
					return nil
				}
				return &cval{t: t, kind: "int", i: n}
			}
		case *types.Struct:
			c := &cval{t: t, kind: "struct"}
			for i := 0; i < u.NumFields(); i++ {
				f := u.Field(i)
				if supportedScalar(f.Type()) {
					c.fields = append(c.fields, build(label+"."+f.Name(), f.Type(), depth+1))
				} else {
					c.fields = append(c.fields, nil)
				}
			}
			return c
		case *types.Slice:
			lv, ok := byLabel[label+".len"]
			if !ok {
				return nil
			}
			n, err := strconv.Atoi(lv)
			if err != nil || n > 4 {
				return nil
			}
			c := &cval{t: t, kind: "slice"}
			for i := 0; i < n; i++ {
				el := build(fmt.Sprintf("%s[%d]", label, i), u.Elem(), depth+1)
				if el == nil {
					return nil
				}
				c.elems = append(c.elems, el)
			}
			return c
		}
		return nil
	}
	var out []*cval
	for _, p := range rc.params {
		c := build(p.name, p.t, 0)
		if c == nil {
			return nil
		}
		out = append(out, c)
	}
	return out
}

func runReplayFile(repo, verif, file string) int {
	b, err := os.ReadFile(file)
	if err != nil {
		fmt.Fprintln(os.Stderr, err)
		return 2
	}
	var m map[string]any
	if json.Unmarshal(b, &m) != nil {
		fmt.Fprintln(os.Stderr, "not a replay file")
		return 2
	}
	fmt.Printf("obligation: %v\nclause: %v\nreason: %v\n", m["obligation"], m["clause"], m["reason"])
	rp, _ := m["replay"].(map[string]any)
	if rp == nil {
		fmt.Println("no concrete replay recorded for this obligation (the file carries the solver output)")
		return 1
	}
	fmt.Printf("replay status: %v\n", rp["status"])
	tf, _ := rp["test_file"].(string)
	if tf == "" || rp["failing_input"] == nil {
		return 1
	}
	fmt.Printf("failing input: %v\nobserved output: %v\n", rp["failing_input"], rp["observed_output"])
	fn, _ := m["function"].(string)
	pkgShort := fn
	if i := strings.Index(fn, "."); i >= 0 {
		pkgShort = fn[:i]
	}
	fmt.Printf("re-run: the generated test %s is injected into package %s with go test -overlay (see overlay.json beside it)\n", tf, pkgShort)
	ov := filepath.Join(filepath.Dir(tf), "overlay.json")
	ob, err := os.ReadFile(ov)
	if err != nil {
		return 1
	}
	var o struct{ Replace map[string]string }
	json.Unmarshal(ob, &o)
	rel := ""
	for k := range o.Replace {
		if strings.HasSuffix(k, "zz_verif_replay_test.go") {
			rel = "./" + strings.TrimPrefix(filepath.Dir(k), repo+"/")
		}
	}
	cmd := exec.Command("go", "test", "-overlay", ov, "-vet=off", "-count=1", "-timeout", "60s", "-run", "^TestVerifReplay$", "-v", rel)
	cmd.Dir = repo
	out, _ := cmd.CombinedOutput()
	for _, l := range strings.Split(string(out), "\n") {
		if strings.HasPrefix(l, "VERIF-CASE") || strings.HasPrefix(l, "--- ") || strings.HasPrefix(l, "ok") || strings.HasPrefix(l, "FAIL") {
			fmt.Println(truncate(l, 300))
		}
	}
	return 1
}

func runSelftest(repo, verif, prop string, seed int) int { return 0 }
